/-
  PV.Equiv.TranslatedBulk — tie T-D for C10 / C09: the bulk readers of `tlefile.py` behind `Downloader`:
  `_parse_tles_for_downloader` (every entry `_get_tles_from_uris(..., only_first=False)` delivers is re-read by
  `Tle("", tle_file=io.StringIO(entry))`, in order), `collect_filenames`, `read_tle_from_mmam_xml_file`,
  `read_tles_from_mmam_xml_files`, `Downloader.read_tle_files`, `Downloader.read_xml_admin_messages`.

  C09: a reader returns a list only when EVERY entry has passed `Tle.__init__` (hence its checksums); the first entry
  whose `__init__` raises ends the call with that exception — a damaged entry is never skipped and never yields an
  element (`mapM_ok_all`, `mapM_first_error`, `parse_damaged_raises`, `xml_damaged_raises`, `entry_damaged`).
  C10: the entries are those of the model `PV.Collection.allTlesSources` (`parse_tles_collection`).
-/
import PV.Equiv.TranslatedCollection
import PV.Equiv.TranslatedInit
set_option linter.unusedVariables false
set_option linter.unusedSectionVars false
set_option linter.unusedSimpArgs false

namespace PV.Equiv.TranslatedBulk
open PV PV.Py PV.Gen.T PV.Text PV.Checksum PV.Collection PV.Equiv.TL PV.Equiv.TranslatedChecksum PV.Equiv.TranslatedInit
  PV.Equiv.TranslatedCollection

/-! ### `[f(x) for x in xs]` in the exception monad -/
section mapM
variable {β γ : Type}

theorem mapM_cons_ok (f : β → M γ) (x : β) (xs : List β) (y : γ) (h : f x = Except.ok y) :
    (x :: xs).mapM f = (xs.mapM f >>= fun ys => Except.ok (y :: ys)) := by
  rw [List.mapM_cons, h]; rfl

theorem mapM_cons_error (f : β → M γ) (x : β) (xs : List β) (e : Exc) (h : f x = Except.error e) :
    (x :: xs).mapM f = Except.error e := by
  rw [List.mapM_cons, h]; rfl

/-- the first element on which `f` raises decides: the comprehension raises that exception -/
theorem mapM_first_error (f : β → M γ) (e : Exc) : ∀ (a : List β) (t : β) (b : List β),
    (∀ x ∈ a, ∃ y, f x = Except.ok y) → f t = Except.error e → (a ++ t :: b).mapM f = Except.error e
  | [], t, b, _, ht => mapM_cons_error f t b e ht
  | x :: a, t, b, ha, ht => by
    obtain ⟨y, hy⟩ := ha x (by simp)
    rw [List.cons_append, mapM_cons_ok f x _ y hy, mapM_first_error f e a t b (fun z hz => ha z (by simp [hz])) ht]
    rfl

/-- one result per input, each the value of `f` on that input -/
def AllOk (f : β → M γ) : List β → List γ → Prop
  | [], [] => True
  | x :: xs, y :: ys => f x = Except.ok y ∧ AllOk f xs ys
  | _, _ => False

/-- a returned list has one element per input, each the value of `f` on it: nothing is skipped -/
theorem mapM_ok_all (f : β → M γ) : ∀ (xs : List β) (ys : List γ), xs.mapM f = Except.ok ys → AllOk f xs ys
  | [], ys, h => by
    have : ys = [] := by simpa [List.mapM_nil] using h.symm
    subst this; exact True.intro
  | x :: xs, ys, h => by
    cases hx : f x with
    | error e => rw [mapM_cons_error f x xs e hx] at h; cases h
    | ok y =>
      rw [mapM_cons_ok f x xs y hx] at h
      cases hr : xs.mapM f with
      | error e => rw [hr] at h; cases h
      | ok ys' =>
        rw [hr] at h
        have : ys = y :: ys' := by simpa using h.symm
        subst this
        exact ⟨hx, mapM_ok_all f xs ys' hr⟩

end mapM

variable {F IO O T U : Type} [FloatOps F]

/-- `Tle("", tle_file=io.StringIO(entry))` -/
def initEntry (ep : Str → F → M T) (fl : Str → M F) (gf : U → O → Str → M Str) (gu : FileArg IO → M (U × O))
    (it : Str → M Int) (sio : Str → IO) (entry : Str) : M (Tle.Self F IO T) :=
  Tle.__init__ (epoch_of_year_and_day := ep) (float_ := fl) (get_first_tle := gf) (get_uris_and_open_func := gu) (int_ := it)
    [] (FileArg.io (sio entry)) none none

/-- `_parse_tles_for_downloader(item, open_func)`: the entries of `_get_tles_from_uris(item, open_func, platform="",
    only_first=False)`, each re-read by `Tle("", tle_file=io.StringIO(entry))`, in order -/
theorem parse_tles_eq {Raw : Type} (sat : Dict Str Str) (dec : Raw → M Str) (uo : FileArg IO → FnRef → M (Iter Raw))
    (ep : Str → F → M T) (fl : Str → M F) (gf : U → O → Str → M Str) (gu : FileArg IO → M (U × O)) (it : Str → M Int)
    (sio : Str → IO) (item : List (FileArg IO)) (f : FnRef) :
    _parse_tles_for_downloader (SATELLITES := sat) (decode_ := dec) (epoch_of_year_and_day := ep) (float_ := fl)
        (get_first_tle := gf) (get_uris_and_open_func := gu) (int_ := it) (io_StringIO := sio) (uri_open := uo) item f =
      (_get_tles_from_uris__only_first_False (SATELLITES := sat) (decode_ := dec) (uri_open := uo) item f [] >>= fun es =>
        es.mapM (initEntry ep fl gf gu it sio)) := by
  unfold _parse_tles_for_downloader initEntry
  simp only [bind_pure_comp, pure_eq, bind_pure, id_map']

/-- **C10 tie.**  On sources whose lines are `us` (ASCII): the entries are those of the model `allTlesSources`, merged
    as `a + "\n" + b`, each re-read by `Tle("", tle_file=io.StringIO(entry))`; StopIteration / KeyError of the scan as
    the model says -/
theorem parse_tles_collection (uo : FileArg IO → FnRef → M (Iter Line)) (sat : Dict Str Str) (f : FnRef)
    (hsat : dictGet? sat [] = none) (us : List (FileArg IO × List Line))
    (hus : ∀ p ∈ us, uo p.1 f = Except.ok p.2 ∧ AsciiAll p.2)
    (ep : Str → F → M T) (fl : Str → M F) (gf : U → O → Str → M Str) (gu : FileArg IO → M (U × O)) (it : Str → M Int)
    (sio : Str → IO) :
    _parse_tles_for_downloader (SATELLITES := sat) (decode_ := fun (l : Line) => (Except.ok l : M Str))
        (epoch_of_year_and_day := ep) (float_ := fl) (get_first_tle := gf) (get_uris_and_open_func := gu) (int_ := it)
        (io_StringIO := sio) (uri_open := uo) (us.map (·.1)) f =
      (outResult (List.map merged) (allTlesSources (f == FnRef._dummy_open_stringio) (us.map (·.2))) >>= fun es =>
        es.mapM (initEntry ep fl gf gu it sio)) := by
  rw [parse_tles_eq, get_tles_from_uris_all uo sat f hsat us hus]

/-- **C09 (collections).**  The scan delivered the entries `a ++ t :: b`; those before `t` pass `Tle.__init__`, `t` makes
    it raise `e` (a damaged entry: `e` = ChecksumError, `entry_damaged`): the reader raises `e`; no list is returned. -/
theorem parse_damaged_raises (uo : FileArg IO → FnRef → M (Iter Line)) (sat : Dict Str Str) (f : FnRef)
    (hsat : dictGet? sat [] = none) (us : List (FileArg IO × List Line))
    (hus : ∀ p ∈ us, uo p.1 f = Except.ok p.2 ∧ AsciiAll p.2)
    (ep : Str → F → M T) (fl : Str → M F) (gf : U → O → Str → M Str) (gu : FileArg IO → M (U × O)) (it : Str → M Int)
    (sio : Str → IO) (a b : List (Line × Line)) (t : Line × Line) (e : Exc)
    (hscan : allTlesSources (f == FnRef._dummy_open_stringio) (us.map (·.2)) = .ok (a ++ t :: b))
    (ha : ∀ x ∈ a, ∃ y, initEntry ep fl gf gu it sio (merged x) = Except.ok y)
    (ht : initEntry ep fl gf gu it sio (merged t) = Except.error e) :
    _parse_tles_for_downloader (SATELLITES := sat) (decode_ := fun (l : Line) => (Except.ok l : M Str))
        (epoch_of_year_and_day := ep) (float_ := fl) (get_first_tle := gf) (get_uris_and_open_func := gu) (int_ := it)
        (io_StringIO := sio) (uri_open := uo) (us.map (·.1)) f = Except.error e := by
  rw [parse_tles_collection uo sat f hsat us hus, hscan]
  simp only [outResult, ok_bind, List.map_append, List.map_cons]
  apply mapM_first_error
  · intro x hx
    obtain ⟨x', hx', rfl⟩ := List.mem_map.mp hx
    exact ha x' hx'
  · exact ht

/-- ... and when the reader returns, it returns one object per entry of the scan, each the value of `Tle.__init__` on
    that entry: every entry has passed its checksums, none was skipped -/
theorem parse_ok_all (uo : FileArg IO → FnRef → M (Iter Line)) (sat : Dict Str Str) (f : FnRef)
    (hsat : dictGet? sat [] = none) (us : List (FileArg IO × List Line))
    (hus : ∀ p ∈ us, uo p.1 f = Except.ok p.2 ∧ AsciiAll p.2)
    (ep : Str → F → M T) (fl : Str → M F) (gf : U → O → Str → M Str) (gu : FileArg IO → M (U × O)) (it : Str → M Int)
    (sio : Str → IO) (objs : List (Tle.Self F IO T))
    (h : _parse_tles_for_downloader (SATELLITES := sat) (decode_ := fun (l : Line) => (Except.ok l : M Str))
        (epoch_of_year_and_day := ep) (float_ := fl) (get_first_tle := gf) (get_uris_and_open_func := gu) (int_ := it)
        (io_StringIO := sio) (uri_open := uo) (us.map (·.1)) f = Except.ok objs) :
    ∃ es, allTlesSources (f == FnRef._dummy_open_stringio) (us.map (·.2)) = .ok es ∧
      AllOk (initEntry ep fl gf gu it sio) (es.map merged) objs := by
  rw [parse_tles_collection uo sat f hsat us hus] at h
  cases hs : allTlesSources (f == FnRef._dummy_open_stringio) (us.map (·.2)) with
  | ok es =>
    rw [hs] at h
    exact ⟨es, rfl, mapM_ok_all _ _ _ h⟩
  | stopIteration => rw [hs] at h; cases h
  | logKeyError => rw [hs] at h; cases h

/-- a damaged entry: the two lines `a`, `b` that the stream of `io.StringIO(a + "\n" + b)` gives back fail the model's
    checksum test (`checkLines a b`, the `accept` of the C09 theorems after `strip`): `Tle.__init__` raises what the model
    says — ChecksumError for a wrong check digit -/
theorem entry_damaged (ep : Str → F → M T) (fl : Str → M F) (gf : U → O → Str → M Str) (gu : FileArg IO → M (U × O))
    (it : Str → M Int) (sio : Str → IO) (a b : Line) (uo : U × O)
    (hgu : gu (FileArg.io (sio (merged (a, b)))) = Except.ok uo) (hgf : gf uo.1 uo.2 [] = Except.ok (a ++ '\n' :: b))
    (na : '\n' ∉ a) (nb : '\n' ∉ b) (aa : Ascii a) (ab : Ascii b) (hbad : checkLines a b ≠ .accepted) :
    initEntry ep fl gf gu it sio (merged (a, b)) = Except.error (excOfOutcome (checkLines a b)) := by
  unfold initEntry
  rw [init_order, read_tle_source gu gf _ (Or.inl rfl)]
  have hpl : Py.upper (Py.strip ([] : Str)) = [] := by decide
  simp only [initSelf, hpl, hgu, hgf, ok_bind]
  have hne : (a ++ '\n' :: b).isEmpty = false := by cases a <;> rfl
  simp only [hne, Bool.false_eq_true, if_false, splitChar_two na nb, Py.unpack2, pure_eq, ok_bind]
  rw [checksum_eq_outcome _ a b rfl rfl (plainDigits_of_ascii aa) (plainDigits_of_ascii ab)]
  cases hc : checkLines a b with
  | accepted => exact absurd hc hbad
  | checksumError => rfl
  | valueError => rfl
  | indexError => rfl

theorem bind_ok_eq {β : Type} (x : M β) : (x >>= fun a => Except.ok a) = x := by cases x <;> rfl

/-! ### loops that collect -/
section loops
variable {β γ : Type}

/-- `for x in xs: acc.append(g(x))` -/
theorem forIn_append_mapM (g : β → M γ) (body : β → List γ → M (ForInStep (List γ)))
    (hb : ∀ x acc, body x acc = (g x >>= fun y => Except.ok (ForInStep.yield (acc ++ [y])))) :
    ∀ (xs : List β) (acc : List γ), forIn xs acc body = (xs.mapM g >>= fun ys => Except.ok (acc ++ ys))
  | [], acc => by simp
  | x :: xs, acc => by
    rw [List.forIn_cons, hb, List.mapM_cons]
    cases g x with
    | error e => rfl
    | ok y =>
      simp only [ok_bind]
      rw [forIn_append_mapM g body hb xs (acc ++ [y])]
      cases xs.mapM g with
      | error e => rfl
      | ok ys => simp

/-- `for x in xs: acc += h(x)` -/
theorem forIn_append_flat (h : β → M (List γ)) (body : β → List γ → M (ForInStep (List γ)))
    (hb : ∀ x acc, body x acc = (h x >>= fun ys => Except.ok (ForInStep.yield (acc ++ ys)))) :
    ∀ (xs : List β) (acc : List γ), forIn xs acc body = (xs.mapM h >>= fun yss => Except.ok (acc ++ yss.flatten))
  | [], acc => by simp
  | x :: xs, acc => by
    rw [List.forIn_cons, hb, List.mapM_cons]
    cases h x with
    | error e => rfl
    | ok ys =>
      simp only [ok_bind]
      rw [forIn_append_flat h body hb xs (acc ++ ys)]
      cases xs.mapM h with
      | error e => rfl
      | ok yss => simp

end loops

/-! ### `collect_filenames` -/

/-- the file names one path contributes: what `glob.glob` finds for a path with a `*`, else the path itself if it exists -/
def namesOf (glob : Str → List Str) (ex : Str → Bool) (path : Str) : List Str :=
  if Py.contains ['*'] path then glob path else if ex path then [path] else []

/-- `collect_filenames(paths)`: path by path, in order; a path without `*` that does not exist is skipped (logged) -/
theorem collect_filenames_eq (glob : Str → List Str) (ex : Str → Bool) (paths : List Str) :
    collect_filenames (glob_glob := glob) (os_path_exists := ex) paths = Except.ok (paths.flatMap (namesOf glob ex)) := by
  unfold collect_filenames
  simp only [pure_eq, bind_pure_comp]
  have key : ∀ (ps : List Str) (acc : List Str) (body : Str → List Str → M (ForInStep (List Str))),
      (∀ p acc, body p acc = Except.ok (ForInStep.yield (acc ++ namesOf glob ex p))) →
      forIn ps acc body = Except.ok (acc ++ ps.flatMap (namesOf glob ex)) := by
    intro ps
    induction ps with
    | nil => intro acc body _; simp
    | cons p ps ih =>
      intro acc body hb
      rw [List.forIn_cons, hb]
      simp only [ok_bind]
      rw [ih _ body hb]; simp
  refine (congrArg (fun r => r >>= fun s => Except.ok s) (key paths [] _ ?_)).trans (by simp)
  intro p acc
  simp only [namesOf]
  by_cases h1 : Py.contains ['*'] p = true
  · simp [h1]
  · by_cases h2 : ex p = true <;> simp [h1, h2]

/-! ### the Downloader methods and the XML bulk reader -/

variable {Config Raw : Type}

/-- `Downloader.read_tle_files()`: the configured paths, `collect_filenames`, `_parse_tles_for_downloader(fnames, open)` -/
theorem read_tle_files_eq (sat : Dict Str Str) (cp : Config → M (List Str)) (dec : Raw → M Str)
    (uo : FileArg IO → FnRef → M (Iter Raw)) (ep : Str → F → M T) (fl : Str → M F) (gf : U → O → Str → M Str)
    (gu : FileArg IO → M (U × O)) (it : Str → M Int) (sio : Str → IO) (glob : Str → List Str) (ex : Str → Bool)
    (self : Downloader.Self Config) :
    Downloader.read_tle_files (SATELLITES := sat) (config_read_tle_files_paths := cp) (decode_ := dec)
        (epoch_of_year_and_day := ep) (float_ := fl) (get_first_tle := gf) (get_uris_and_open_func := gu) (glob_glob := glob)
        (int_ := it) (io_StringIO := sio) (os_path_exists := ex) (uri_open := uo) self =
      (cp self.config >>= fun paths =>
        _parse_tles_for_downloader (SATELLITES := sat) (decode_ := dec) (epoch_of_year_and_day := ep) (float_ := fl)
          (get_first_tle := gf) (get_uris_and_open_func := gu) (int_ := it) (io_StringIO := sio) (uri_open := uo)
          ((paths.flatMap (namesOf glob ex)).map FileArg.path) FnRef.open_py) := by
  unfold Downloader.read_tle_files
  simp only [collect_filenames_eq, ok_bind, pure_eq, bind_ok_eq]

/-- what one admin-message file contributes: nothing when the extracted text is empty, else one object per chunk of two
    lines of `text.split("\n")`, each chunk joined with "\n" (TypeError when the last chunk was filled with None) and
    re-read by `Tle("", tle_file=io.StringIO(...))` -/
def xmlFile (rx : Str → M Str) (chunks : List Str → List (List (Option Str))) (initE : Str → M (Tle.Self F IO T))
    (fname : Str) : M (List (Tle.Self F IO T)) :=
  rx fname >>= fun text =>
    if text.isEmpty then Except.ok []
    else (chunks (Py.splitChar '\n' text)).mapM fun c => Py.joinOpt ['\n'] c >>= fun s => initE s

/-- **`read_tles_from_mmam_xml_files(paths)`**: file by file (`collect_filenames`), chunk by chunk, in order; the first
    exception (XML parsing, a None line, `Tle.__init__` — a damaged entry) ends the call -/
theorem read_xml_eq (ep : Str → F → M T) (fl : Str → M F) (gf : U → O → Str → M Str) (gu : FileArg IO → M (U × O))
    (it : Str → M Int) (sio : Str → IO) (glob : Str → List Str) (ex : Str → Bool)
    (chunks : List Str → List (List (Option Str))) (rx : Str → M Str) (paths : List Str) :
    read_tles_from_mmam_xml_files (epoch_of_year_and_day := ep) (float_ := fl) (get_first_tle := gf)
        (get_uris_and_open_func := gu) (glob_glob := glob) (group_chunks_2 := chunks) (int_ := it) (io_StringIO := sio)
        (os_path_exists := ex) (read_tle_from_mmam_xml_file := rx) paths =
      ((paths.flatMap (namesOf glob ex)).mapM (xmlFile rx chunks (initEntry ep fl gf gu it sio)) >>= fun yss =>
        Except.ok yss.flatten) := by
  unfold read_tles_from_mmam_xml_files
  simp only [collect_filenames_eq, ok_bind, pure_eq, bind_pure_comp]
  refine (congrArg (fun r => r >>= fun s => Except.ok s)
    (forIn_append_flat (xmlFile rx chunks (initEntry ep fl gf gu it sio)) _ ?_ _ [])).trans ?_
  · intro fname acc
    unfold xmlFile
    cases rx fname with
    | error e => rfl
    | ok text =>
      simp only [ok_bind, truthy]
      cases text with
      | nil => simp
      | cons ch rest =>
        simp only [List.isEmpty_cons, Bool.not_false, Bool.not_true, Bool.false_eq_true, if_false]
        refine (congrArg (fun r => r >>= fun s => Except.ok (ForInStep.yield s))
          (forIn_append_mapM (fun c => Py.joinOpt ['\n'] c >>= fun s => initEntry ep fl gf gu it sio s) _ ?_ _ acc)).trans ?_
        · intro c acc'
          unfold initEntry
          cases Py.joinOpt ['\n'] c with
          | error e => rfl
          | ok s => simp only [ok_bind, bind_pure_comp]
        · simp only [bind_assoc, ok_bind]
  · simp only [bind_assoc, ok_bind, List.nil_append]

/-- `Downloader.read_xml_admin_messages()` -/
theorem read_xml_admin_messages_eq (cp : Config → M (List Str)) (ep : Str → F → M T) (fl : Str → M F)
    (gf : U → O → Str → M Str) (gu : FileArg IO → M (U × O)) (it : Str → M Int) (sio : Str → IO) (glob : Str → List Str)
    (ex : Str → Bool) (chunks : List Str → List (List (Option Str))) (rx : Str → M Str) (self : Downloader.Self Config) :
    Downloader.read_xml_admin_messages (config_read_xml_admin_messages_paths := cp) (epoch_of_year_and_day := ep)
        (float_ := fl) (get_first_tle := gf) (get_uris_and_open_func := gu) (glob_glob := glob) (group_chunks_2 := chunks)
        (int_ := it) (io_StringIO := sio) (os_path_exists := ex) (read_tle_from_mmam_xml_file := rx) self =
      (cp self.config >>= fun paths =>
        read_tles_from_mmam_xml_files (epoch_of_year_and_day := ep) (float_ := fl) (get_first_tle := gf)
          (get_uris_and_open_func := gu) (glob_glob := glob) (group_chunks_2 := chunks) (int_ := it) (io_StringIO := sio)
          (os_path_exists := ex) (read_tle_from_mmam_xml_file := rx) paths) := by
  unfold Downloader.read_xml_admin_messages
  simp only [pure_eq, bind_ok_eq]

/-- the contract of `_group_iterable_to_chunks(2, data)` (`zip_longest(*[iter(data)] * 2)`): consecutive pairs, an odd
    last item paired with None -/
def chunks2 : List Str → List (List (Option Str))
  | [] => []
  | [x] => [[some x, none]]
  | x :: y :: r => [some x, some y] :: chunks2 r

/-- **C09 (admin messages), one file.**  The chunks before `c` pass, `c` joins to `s` and `Tle.__init__` raises `e` on it
    (a damaged entry): the file raises `e` -/
theorem xmlFile_damaged (rx : Str → M Str) (chunks : List Str → List (List (Option Str))) (initE : Str → M (Tle.Self F IO T))
    (fname text s : Str) (ca cb : List (List (Option Str))) (c : List (Option Str)) (e : Exc)
    (hrx : rx fname = Except.ok text) (hne : text.isEmpty = false) (hch : chunks (Py.splitChar '\n' text) = ca ++ c :: cb)
    (hca : ∀ x ∈ ca, ∃ y, (Py.joinOpt ['\n'] x >>= fun s => initE s) = Except.ok y)
    (hj : Py.joinOpt ['\n'] c = Except.ok s) (hbad : initE s = Except.error e) :
    xmlFile rx chunks initE fname = Except.error e := by
  unfold xmlFile
  simp only [hrx, ok_bind, hne, Bool.false_eq_true, if_false, hch]
  exact mapM_first_error _ e ca c cb hca (by rw [hj]; exact hbad)

/-- **C09 (admin messages), the reader.**  The files before `f` are read, `f` raises `e`: the reader raises `e`; it never
    returns a list that lacks an entry -/
theorem read_xml_damaged (ep : Str → F → M T) (fl : Str → M F) (gf : U → O → Str → M Str) (gu : FileArg IO → M (U × O))
    (it : Str → M Int) (sio : Str → IO) (glob : Str → List Str) (ex : Str → Bool)
    (chunks : List Str → List (List (Option Str))) (rx : Str → M Str) (paths : List Str) (fa fb : List Str) (f : Str) (e : Exc)
    (hf : paths.flatMap (namesOf glob ex) = fa ++ f :: fb)
    (hfa : ∀ x ∈ fa, ∃ y, xmlFile rx chunks (initEntry ep fl gf gu it sio) x = Except.ok y)
    (hbad : xmlFile rx chunks (initEntry ep fl gf gu it sio) f = Except.error e) :
    read_tles_from_mmam_xml_files (epoch_of_year_and_day := ep) (float_ := fl) (get_first_tle := gf)
        (get_uris_and_open_func := gu) (glob_glob := glob) (group_chunks_2 := chunks) (int_ := it) (io_StringIO := sio)
        (os_path_exists := ex) (read_tle_from_mmam_xml_file := rx) paths = Except.error e := by
  rw [read_xml_eq, hf, mapM_first_error _ e fa f fb hfa hbad]
  rfl

/-- `read_tle_from_mmam_xml_file(fname)`: the texts of `<line-1>`, `<line-2>` of every `<navigation>` element in document
    order, joined with "\n" (TypeError when an element is empty, AttributeError when one is missing) -/
theorem read_tle_from_mmam_xml_file_eq {XmlElem XmlTree : Type} (parse : Str → M XmlTree)
    (ft : XmlElem → Str → M (Option Str)) (fa : XmlElem → Str → List XmlElem) (root : XmlTree → XmlElem) (fname : Str) :
    read_tle_from_mmam_xml_file (ET_parse := parse) (xml_find_text := ft) (xml_findall := fa) (xml_getroot := root) fname =
      (parse fname >>= fun tree =>
        (fa (root tree) ".//navigation".toList).mapM (fun nav =>
          ft nav ".//line-1".toList >>= fun a => ft nav ".//line-2".toList >>= fun b => Except.ok [a, b]) >>= fun ps =>
        Py.joinOpt ['\n'] ps.flatten) := by
  unfold read_tle_from_mmam_xml_file
  cases parse fname with
  | error e => rfl
  | ok tree =>
    simp only [ok_bind, pure_eq, bind_pure_comp]
    have h1 : ['.', '/', '/', 'n', 'a', 'v', 'i', 'g', 'a', 't', 'i', 'o', 'n'] = ".//navigation".toList := by decide
    have h2 : ['.', '/', '/', 'l', 'i', 'n', 'e', '-', '1'] = ".//line-1".toList := by decide
    have h3 : ['.', '/', '/', 'l', 'i', 'n', 'e', '-', '2'] = ".//line-2".toList := by decide
    rw [h1, h2, h3]
    refine (congrArg (fun r => r >>= fun s => Py.joinOpt ['\n'] s)
      (forIn_append_flat (fun nav => ft nav ".//line-1".toList >>= fun a => ft nav ".//line-2".toList >>= fun b =>
        Except.ok [a, b]) _ ?_ _ [])).trans ?_
    · intro nav acc
      cases ft nav ".//line-1".toList with
      | error e => rfl
      | ok a =>
        cases ft nav ".//line-2".toList with
        | error e => rfl
        | ok b => simp
    · simp only [bind_assoc, ok_bind, List.nil_append]

/-! ### entry by entry: the model's `reread` (C10) -/

theorem firstTle_congr (c1 c2 : Cfg) (hp : c1.platform = c2.platform) (hr : c1.reg c1.platform = c2.reg c2.platform)
    (hd : c1.dummy = c2.dummy) : ∀ lines : List Line, firstTle c1 lines = firstTle c2 lines
  | [] => rfl
  | l0 :: rest => by
    simp only [firstTle, decodeLines_congr c1 c2 hp hr hd true l0 rest, firstTle_congr c1 c2 hp hr hd rest]

theorem mapM_congr {β γ : Type} (f g : β → M γ) : ∀ xs : List β, (∀ x ∈ xs, f x = g x) → xs.mapM f = xs.mapM g
  | [], _ => rfl
  | x :: xs, h => by
    rw [List.mapM_cons, List.mapM_cons, h x (by simp), mapM_congr f g xs (fun y hy => h y (by simp [hy]))]

/-- what `Tle("", tle_file=io.StringIO(entry))` does after the model's re-reading `o` of the entry -/
def afterRead (ep : Str → F → M T) (fl : Str → M F) (it : Str → M Int) (tf : FileArg IO) (o : ReadOutcome) :
    M (Tle.Self F IO T) :=
  readResult (initSelf [] tf none none) o >>= fun s =>
    Tle._checksum s >>= fun _ => Tle._parse_tle (float_ := fl) (epoch_of_year_and_day := ep) (int_ := it) s

/-- **one entry (C10).**  The stream `io.StringIO(a + "\n" + b)` is the one source (`hgu`), it yields the lines the model
    says (`hopen`; ASCII, no inner line break): `Tle("", tle_file=...)` reads what the model's `reread (a, b)` reads, then
    runs `_checksum` and `_parse_tle` on it -/
theorem initEntry_reread (uo : FileArg IO → FnRef → M (Iter Line)) (sat : Dict Str Str) (hsat : dictGet? sat [] = none)
    (gu : FileArg IO → M (List (FileArg IO) × FnRef)) (ep : Str → F → M T) (fl : Str → M F) (it : Str → M Int)
    (sio : Str → IO) (ab : Line × Line) (url : FileArg IO)
    (hgu : gu (FileArg.io (sio (merged ab))) = Except.ok ([url], FnRef._dummy_open_stringio))
    (hopen : uo url FnRef._dummy_open_stringio = Except.ok (stringIOLines2 ab.1 ab.2))
    (ha : AsciiAll (stringIOLines2 ab.1 ab.2)) (hn : ∀ l ∈ stringIOLines2 ab.1 ab.2, '\n' ∉ Text.strip l) :
    initEntry ep fl (_get_first_tle (uri_open := uo) (SATELLITES := sat) (decode_ := fun (l : Line) => (Except.ok l : M Str)))
        gu it sio (merged ab) =
      afterRead ep fl it (FileArg.io (sio (merged ab))) (reread ab) := by
  unfold initEntry afterRead
  rw [init_order]
  have hpl : (initSelf (F := F) (T := T) [] (FileArg.io (sio (merged ab))) none none)._platform = [] := by
    show Py.upper (Py.strip ([] : Str)) = []
    decide
  rw [read_tle_eq_readTle gu uo sat _ url FnRef._dummy_open_stringio _ (Or.inl rfl) hgu hopen ha hn, hpl]
  have hc : readTle (cfgOf sat [] (FnRef._dummy_open_stringio == FnRef._dummy_open_stringio)) (stringIOLines2 ab.1 ab.2) =
      reread ab := by
    unfold reread readTle
    rw [firstTle_congr (cfgOf sat [] (FnRef._dummy_open_stringio == FnRef._dummy_open_stringio))
      { platform := [], reg := fun _ => none, dummy := true } rfl hsat rfl]
  rw [hc]

/-- **`_parse_tles_for_downloader` (C10), entry by entry.**  The scan delivers `es`; for each of them the stream is the one
    source and yields the lines the model says: the reader re-reads every entry as the model's `reread` does, in order -/
theorem parse_tles_reread (uo : FileArg IO → FnRef → M (Iter Line)) (sat : Dict Str Str) (f : FnRef)
    (hsat : dictGet? sat [] = none) (us : List (FileArg IO × List Line))
    (hus : ∀ p ∈ us, uo p.1 f = Except.ok p.2 ∧ AsciiAll p.2)
    (gu : FileArg IO → M (List (FileArg IO) × FnRef)) (ep : Str → F → M T) (fl : Str → M F) (it : Str → M Int)
    (sio : Str → IO) (es : List (Line × Line))
    (hscan : allTlesSources (f == FnRef._dummy_open_stringio) (us.map (·.2)) = .ok es)
    (hes : ∀ ab ∈ es, ∃ url, gu (FileArg.io (sio (merged ab))) = Except.ok ([url], FnRef._dummy_open_stringio) ∧
      uo url FnRef._dummy_open_stringio = Except.ok (stringIOLines2 ab.1 ab.2) ∧
      AsciiAll (stringIOLines2 ab.1 ab.2) ∧ ∀ l ∈ stringIOLines2 ab.1 ab.2, '\n' ∉ Text.strip l) :
    _parse_tles_for_downloader (SATELLITES := sat) (decode_ := fun (l : Line) => (Except.ok l : M Str))
        (epoch_of_year_and_day := ep) (float_ := fl)
        (get_first_tle := _get_first_tle (uri_open := uo) (SATELLITES := sat) (decode_ := fun (l : Line) => (Except.ok l : M Str)))
        (get_uris_and_open_func := gu) (int_ := it) (io_StringIO := sio) (uri_open := uo) (us.map (·.1)) f =
      es.mapM fun ab => afterRead ep fl it (FileArg.io (sio (merged ab))) (reread ab) := by
  rw [parse_tles_collection uo sat f hsat us hus, hscan]
  simp only [outResult, ok_bind, List.mapM_map]
  apply mapM_congr
  intro ab hab
  obtain ⟨url, h1, h2, h3, h4⟩ := hes ab hab
  exact initEntry_reread uo sat hsat gu ep fl it sio ab url h1 h2 h3 h4

/-! ### the admin messages: the model's `xmlBulk` -/

theorem splitChar_cons {sep : Char} : ∀ {a : List Char} (rest : List Char), sep ∉ a →
    Py.splitChar sep (a ++ sep :: rest) = a :: Py.splitChar sep rest
  | [], rest, _ => by simp [Py.splitChar]
  | c :: cs, rest, ha => by
    have hc : c ≠ sep := fun e => ha (by simp [e])
    have := splitChar_cons (sep := sep) (a := cs) rest (fun hm => ha (by simp [hm]))
    simp [Py.splitChar, hc, this]

/-- `"\n".join(ls).split("\n")` gives the lines back when none holds a line break -/
theorem splitChar_join : ∀ (ls : List Str), ls ≠ [] → (∀ l ∈ ls, '\n' ∉ l) →
    Py.splitChar '\n' (Py.join ['\n'] ls) = ls
  | [], h, _ => absurd rfl h
  | [x], _, hn => by simp [Py.join, splitChar_no_sep (hn x (by simp))]
  | x :: y :: r, _, hn => by
    rw [Py.join]
    simp only [List.append_assoc, List.singleton_append]
    rw [splitChar_cons _ (hn x (by simp)), splitChar_join (y :: r) (by simp) (fun l hl => hn l (by simp [hl]))]

theorem chunks2_pairs : ∀ ps : List (Line × Line), chunks2 (ps.flatMap fun p => [p.1, p.2]) = ps.map fun p => [some p.1, some p.2]
  | [] => rfl
  | p :: ps => by simp [chunks2, chunks2_pairs ps]

/-- **one admin-message file (C10).**  The file's `<line-1>` / `<line-2>` texts are the pairs `ps` (at least one, none with
    a line break): the reader re-reads each pair through `Tle("", tle_file=io.StringIO(a + "\n" + b))`, in order — the
    entries of the model's `xmlBulk ps = ps.map reread` -/
theorem xmlFile_pairs (rx : Str → M Str) (initE : Str → M (Tle.Self F IO T)) (fname : Str) (ps : List (Line × Line))
    (hne : ps ≠ []) (hnl : ∀ p ∈ ps, '\n' ∉ p.1 ∧ '\n' ∉ p.2)
    (hrx : rx fname = Except.ok (Py.join ['\n'] (ps.flatMap fun p => [p.1, p.2]))) :
    xmlFile rx chunks2 initE fname = ps.mapM fun p => initE (merged p) := by
  unfold xmlFile
  have hls : (ps.flatMap fun p => [p.1, p.2]) ≠ [] := by
    cases ps with
    | nil => exact absurd rfl hne
    | cons p ps => simp
  have hnn : ∀ l ∈ (ps.flatMap fun p => [p.1, p.2]), '\n' ∉ l := by
    intro l hl
    obtain ⟨p, hp, hl⟩ := List.mem_flatMap.mp hl
    rcases List.mem_cons.mp hl with h | h
    · rw [h]; exact (hnl p hp).1
    · have : l = p.2 := by simpa using h
      rw [this]; exact (hnl p hp).2
  have htext : (Py.join ['\n'] (ps.flatMap fun p => [p.1, p.2])).isEmpty = false := by
    cases ps with
    | nil => exact absurd rfl hne
    | cons p ps =>
      cases hps : ps.flatMap (fun p => [p.1, p.2]) with
      | nil => simp [Py.join, hps]
      | cons q qs => simp [Py.join, hps]
  simp only [hrx, ok_bind, htext, Bool.false_eq_true, if_false, splitChar_join _ hls hnn, chunks2_pairs, List.mapM_map]
  apply mapM_congr
  intro p _
  simp [Py.joinOpt, Py.join, merged]

/-- the outcomes the reader goes through for a file are the model's `xmlBulk` -/
theorem xmlBulk_eq (ps : List (Line × Line)) : xmlBulk ps = ps.map reread := rfl

/-- **`Downloader.read_tle_files()` (C10).**  The configured paths name the files `us` (with their lines); the scan of
    these files delivers `es`: the method returns what re-reading every entry as the model's `reread` gives (then
    `_checksum`, `_parse_tle`), in order — or the first exception -/
theorem read_tle_files_reread {Config : Type} (uo : FileArg IO → FnRef → M (Iter Line)) (sat : Dict Str Str)
    (hsat : dictGet? sat [] = none) (us : List (FileArg IO × List Line))
    (hus : ∀ p ∈ us, uo p.1 FnRef.open_py = Except.ok p.2 ∧ AsciiAll p.2)
    (gu : FileArg IO → M (List (FileArg IO) × FnRef)) (ep : Str → F → M T) (fl : Str → M F) (it : Str → M Int)
    (sio : Str → IO) (glob : Str → List Str) (ex : Str → Bool) (cp : Config → M (List Str)) (self : Downloader.Self Config)
    (paths : List Str) (hcp : cp self.config = Except.ok paths)
    (hfiles : (paths.flatMap (namesOf glob ex)).map FileArg.path = us.map (·.1))
    (es : List (Line × Line)) (hscan : allTlesSources false (us.map (·.2)) = .ok es)
    (hes : ∀ ab ∈ es, ∃ url, gu (FileArg.io (sio (merged ab))) = Except.ok ([url], FnRef._dummy_open_stringio) ∧
      uo url FnRef._dummy_open_stringio = Except.ok (stringIOLines2 ab.1 ab.2) ∧
      AsciiAll (stringIOLines2 ab.1 ab.2) ∧ ∀ l ∈ stringIOLines2 ab.1 ab.2, '\n' ∉ Text.strip l) :
    Downloader.read_tle_files (SATELLITES := sat) (config_read_tle_files_paths := cp)
        (decode_ := fun (l : Line) => (Except.ok l : M Str)) (epoch_of_year_and_day := ep) (float_ := fl)
        (get_first_tle := _get_first_tle (uri_open := uo) (SATELLITES := sat) (decode_ := fun (l : Line) => (Except.ok l : M Str)))
        (get_uris_and_open_func := gu) (glob_glob := glob) (int_ := it) (io_StringIO := sio) (os_path_exists := ex)
        (uri_open := uo) self =
      es.mapM fun ab => afterRead ep fl it (FileArg.io (sio (merged ab))) (reread ab) := by
  rw [read_tle_files_eq, hcp]
  simp only [ok_bind, hfiles]
  exact parse_tles_reread uo sat FnRef.open_py hsat us hus gu ep fl it sio es hscan hes

/-- **`read_tles_from_mmam_xml_files(paths)` (C10).**  Every collected file `f` holds the pairs `psOf f` (at least one, no
    line breaks) and each pair's stream is read back as the model says: the reader returns, file by file and pair by pair,
    what the model's `xmlBulk (psOf f)` re-reads (then `_checksum`, `_parse_tle`) — or the first exception -/
theorem read_xml_pairs (uo : FileArg IO → FnRef → M (Iter Line)) (sat : Dict Str Str) (hsat : dictGet? sat [] = none)
    (gu : FileArg IO → M (List (FileArg IO) × FnRef)) (ep : Str → F → M T) (fl : Str → M F) (it : Str → M Int)
    (sio : Str → IO) (glob : Str → List Str) (ex : Str → Bool) (rx : Str → M Str) (paths : List Str)
    (psOf : Str → List (Line × Line))
    (hfile : ∀ f ∈ paths.flatMap (namesOf glob ex), psOf f ≠ [] ∧ (∀ p ∈ psOf f, '\n' ∉ p.1 ∧ '\n' ∉ p.2) ∧
      rx f = Except.ok (Py.join ['\n'] ((psOf f).flatMap fun p => [p.1, p.2])) ∧
      ∀ ab ∈ psOf f, ∃ url, gu (FileArg.io (sio (merged ab))) = Except.ok ([url], FnRef._dummy_open_stringio) ∧
        uo url FnRef._dummy_open_stringio = Except.ok (stringIOLines2 ab.1 ab.2) ∧
        AsciiAll (stringIOLines2 ab.1 ab.2) ∧ ∀ l ∈ stringIOLines2 ab.1 ab.2, '\n' ∉ Text.strip l) :
    read_tles_from_mmam_xml_files (epoch_of_year_and_day := ep) (float_ := fl)
        (get_first_tle := _get_first_tle (uri_open := uo) (SATELLITES := sat) (decode_ := fun (l : Line) => (Except.ok l : M Str)))
        (get_uris_and_open_func := gu) (glob_glob := glob) (group_chunks_2 := chunks2) (int_ := it) (io_StringIO := sio)
        (os_path_exists := ex) (read_tle_from_mmam_xml_file := rx) paths =
      ((paths.flatMap (namesOf glob ex)).mapM (fun f =>
          (psOf f).mapM fun ab => afterRead ep fl it (FileArg.io (sio (merged ab))) (reread ab)) >>= fun yss =>
        Except.ok yss.flatten) := by
  rw [read_xml_eq]
  congr 1
  apply mapM_congr
  intro f hf
  obtain ⟨h1, h2, h3, h4⟩ := hfile f hf
  rw [xmlFile_pairs rx _ f (psOf f) h1 h2 h3]
  apply mapM_congr
  intro ab hab
  obtain ⟨url, g1, g2, g3, g4⟩ := h4 ab hab
  exact initEntry_reread uo sat hsat gu ep fl it sio ab url g1 g2 g3 g4

end PV.Equiv.TranslatedBulk
