/-
  PV.Equiv.TranslatedPlatforms — tie T-D for C10 (the registry `SATELLITES`): the translation of
  `read_platform_numbers(filename, in_upper, num_as_int=False)` is the model `PV.Collection.readPlatformNumbers` on the
  rows the file yields, for every ASCII file.  (`open(filename, "r")` is a parameter: the list of rows.)
-/
import PV.Equiv.TranslatedCollection
set_option linter.unusedSimpArgs false
set_option linter.unusedVariables false

namespace PV.Equiv.TranslatedPlatforms
open PV.Py PV.Gen.T PV.Collection PV.Equiv.TL

/-! ### `split()`, `" ".join`, `upper()` on ASCII text -/

theorem splitWs_go_eq : ∀ (s cur : List Char) (acc : List (List Char)), (∀ c ∈ s, isspace c = Text.isPyWs c) →
    Text.splitWs.go s cur acc = acc.reverse ++ Py.splitWsAux s cur
  | [], cur, acc, _ => by
    cases h : cur.isEmpty <;> simp [Text.splitWs.go, Py.splitWsAux, h]
  | c :: cs, cur, acc, hs => by
    have hc := hs c (by simp)
    have ih := fun cur acc => splitWs_go_eq cs cur acc (fun d hd => hs d (by simp [hd]))
    simp only [Text.splitWs.go, Py.splitWsAux, hc]
    cases hw : Text.isPyWs c
    · simp [ih]
    · cases he : cur.isEmpty <;> simp [ih, he]

theorem splitWs_ascii {s : List Char} (h : Ascii s) : Py.splitWs s = Text.splitWs s := by
  unfold Py.splitWs Text.splitWs
  rw [splitWs_go_eq s [] [] (fun c hc => isspace_ascii (h c hc))]
  simp

theorem join_eq : ∀ l : List (List Char), Py.join [' '] l = joinSp l
  | [] => rfl
  | [x] => rfl
  | x :: y :: r => by
    have := join_eq (y :: r)
    simp only [Py.join, joinSp, this]
    simp

theorem upperTables_ascii : ∀ n < 128,
    Gen.U.upperSpecial.find? (fun e => e.1 == n) = none ∧
    Gen.U.upperRanges.find? (fun r => r.1 ≤ n && n ≤ r.2.1) = if 97 ≤ n ∧ n ≤ 122 then some (97, 122, 65) else none := by
  decide +kernel

theorem upperChar_ascii {c : Char} (h : c.toNat < 128) : Py.upperChar c = [Text.upperChar c] := by
  have ht := upperTables_ascii c.toNat h
  unfold Py.upperChar Text.upperChar
  rw [ht.1, ht.2]
  by_cases hr : 97 ≤ c.toNat ∧ c.toNat ≤ 122
  · simp only [hr, and_self, if_true]
    congr 2
    omega
  · simp only [hr, if_false]

theorem upper_ascii : ∀ {s : List Char}, Ascii s → Py.upper s = Text.upper s
  | [], _ => rfl
  | c :: cs, h => by
    have hc := upperChar_ascii (h c (by simp))
    have := upper_ascii (s := cs) (fun d hd => h d (by simp [hd]))
    simp only [Py.upper, Text.upper, List.flatMap_cons, List.map_cons, hc] at this ⊢
    simp [this]

theorem splitWsAux_chars : ∀ (s cur : List Char) (w : List Char), w ∈ Py.splitWsAux s cur → ∀ c ∈ w, c ∈ s ∨ c ∈ cur
  | [], cur, w, hw, c, hc => by
    cases he : cur.isEmpty <;> simp [Py.splitWsAux, he] at hw
    subst hw; exact Or.inr (by simpa using hc)
  | d :: ds, cur, w, hw, c, hc => by
    simp only [Py.splitWsAux] at hw
    split at hw
    · split at hw
      · rcases splitWsAux_chars ds [] w hw c hc with h | h
        · exact Or.inl (by simp [h])
        · simp at h
      · rcases List.mem_cons.mp hw with h | h
        · subst h; exact Or.inr (by simpa using hc)
        · rcases splitWsAux_chars ds [] w h c hc with h | h
          · exact Or.inl (by simp [h])
          · simp at h
    · rcases splitWsAux_chars ds (d :: cur) w hw c hc with h | h
      · exact Or.inl (by simp [h])
      · rcases List.mem_cons.mp h with h | h
        · exact Or.inl (by simp [h])
        · exact Or.inr h

theorem ascii_splitWs {s : List Char} (h : Ascii s) : ∀ w ∈ Py.splitWs s, Ascii w := by
  intro w hw c hc
  rcases splitWsAux_chars s [] w hw c hc with h' | h'
  · exact h c h'
  · simp at h'

theorem ascii_joinSp : ∀ (l : List (List Char)), (∀ w ∈ l, Ascii w) → Ascii (joinSp l)
  | [], _ => by intro c hc; simp [joinSp] at hc
  | [x], h => by simpa [joinSp] using h x (by simp)
  | x :: y :: r, h => by
    have ih := ascii_joinSp (y :: r) (fun w hw => h w (by simp [hw]))
    intro c hc
    simp only [joinSp, List.mem_append, List.mem_cons] at hc
    rcases hc with hc | hc | hc
    · exact h x (by simp) c hc
    · subst hc; decide
    · exact ih c hc

theorem model_dictSet_eq (d : List (Line × Line)) (k v : Line) : Collection.dictSet d k v = Py.dictSet d k v := by
  induction d with
  | nil => rfl
  | cons p r ih => obtain ⟨k', v'⟩ := p; simp [Collection.dictSet, Py.dictSet, ih]

/-- the loop over the rows is the model's fold -/
theorem rows_loop (inUpper : Bool) (f : Line → Dict Str Str → M (ForInStep (Dict Str Str)))
    (hf : ∀ row d, Ascii row → f row d = Except.ok (ForInStep.yield (platStep inUpper d row))) :
    ∀ (rows : List Line) (d : Dict Str Str), (∀ r ∈ rows, Ascii r) →
      forIn rows d f = Except.ok (rows.foldl (platStep inUpper) d)
  | [], d, _ => rfl
  | r :: rs, d, h => by
    simp only [List.forIn_cons, hf r d (h r (by simp)), ok_bind, List.foldl_cons]
    exact rows_loop inUpper f hf rs _ (fun x hx => h x (by simp [hx]))

/-- **C10 tie (registry).**  `read_platform_numbers(filename, in_upper, num_as_int=False)` as the source has it now, on a
    file whose rows are `rows`: the model's `readPlatformNumbers` (comment rows and rows with fewer than two words are
    skipped; the name is the words but the last joined by single spaces, upper-cased on request; a later row replaces an
    earlier one with the same name, keeping its position). -/
theorem read_platform_numbers_eq (opn : Str → M (List Str)) (filename : Str) (inUpper : Bool) (rows : List Line)
    (hopen : opn filename = Except.ok rows) (ha : ∀ r ∈ rows, Ascii r) :
    read_platform_numbers__num_as_int_False (open_text_lines := opn) filename inUpper =
      Except.ok (readPlatformNumbers inUpper rows) := by
  unfold read_platform_numbers__num_as_int_False readPlatformNumbers
  simp only [hopen, ok_bind, pure_eq]
  have key := fun f hf => rows_loop inUpper f hf rows [] ha
  rw [key]
  · rfl
  · intro row d hrow
    have hparts := ascii_splitWs hrow
    simp only [platStep, platLine, TranslatedCollection.startswith_eq, splitWs_ascii hrow, slice_to_neg1, index_neg1, join_eq]
    have hparts' : ∀ w ∈ Text.splitWs row, Ascii w := by rw [← splitWs_ascii hrow]; exact hparts
    have hup := upper_ascii (ascii_joinSp (Text.splitWs row).dropLast
      (fun w hw => hparts' w (List.dropLast_subset _ hw)))
    rw [hup]
    rcases Bool.eq_false_or_eq_true (Text.startsWith row ['#']) with hs | hs
    · simp [hs]
    · by_cases hl : (Text.splitWs row).length < 2
      · have hl' : ((Text.splitWs row).length : Int) < 2 := by omega
        have hl2 : ¬ ((Text.splitWs row).length : Int) ≥ 2 := by omega
        simp [hs, hl, hl', hl2]
      · have hl' : ¬ ((Text.splitWs row).length : Int) < 2 := by omega
        have hl2 : ((Text.splitWs row).length : Int) ≥ 2 := by omega
        cases hg : (Text.splitWs row).getLast? with
        | none =>
          have : Text.splitWs row = [] := List.getLast?_eq_none_iff.mp hg
          rw [this] at hl; simp at hl
        | some num =>
          cases inUpper <;> simp [hs, hl, hl', hl2, hg, model_dictSet_eq]

end PV.Equiv.TranslatedPlatforms
