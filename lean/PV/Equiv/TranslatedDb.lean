/-
  PV.Equiv.TranslatedDb — tie T-D for C15 (the TLE archive): the translations of `SQLiteTLE.__init__` and
  `SQLiteTLE.update_db` are the model's `PV.Db.openDb` and `PV.Db.updateOp`: which SQL statements are issued, in which
  order, each in its own transaction (`with self.db:`: an exception leaves the store as it was at entry), `IntegrityError`
  swallowed for the row insert ONLY, `self.updated = True` only after a row went in.

  The sqlite operations are parameters working on an abstract store; here they are instantiated with the model's `exec`
  on `PV.Db.Db`.  The SQL texts are parameters too (`SATID_TABLE.format(n)`, `SATID_VALUES.format(n)`, the two module
  constants); the statement a text stands for is read back through decoders assumed to invert them (`TextScheme`).
-/
import PV.Equiv.TranslatedOrbitNum
import PV.Model.Db
set_option linter.unusedVariables false
set_option linter.unusedSectionVars false
set_option linter.unusedSimpArgs false

namespace PV.Equiv.TranslatedDb
open PV.Py PV.Gen.T PV.Db PV.Equiv.TL PV.Equiv.TranslatedOrbitNum

variable {TleObj WriterConfig : Type}

/-- the exception class of a model error -/
def excOf : Err → Exc
  | .integrity => Exc.named "sqlite3.IntegrityError"
  | .operational => Exc.named "sqlite3.OperationalError"

/-- one statement on the store: committed, or an exception with the store unchanged -/
def execMS (st : Stmt) : MS Db Unit := fun db =>
  match exec db st with
  | .ok db' => (Except.ok (), db')
  | .error e => (Except.error (excOf e), db)

/-- the SQL texts and how to read the table number back from them -/
structure TextScheme where
  createText : Int → Str              -- `SATID_TABLE.format(num)`; the command is "CREATE TABLE " + this
  rowText : Int → Str                 -- `SATID_VALUES.format(num)`
  nameText : Str                      -- `PLATFORM_VALUES`
  namesTable : Str                    -- `PLATFORM_NAMES_TABLE`
  decCreate : Str → Option Nat
  decRow : Str → Option Nat
  hCreate : ∀ n : Nat, decCreate ("CREATE TABLE ".toList ++ createText n) = some n
  hRow : ∀ n : Nat, decRow (rowText n) = some n
  /-- the command creating `platform_names` is not one of the per-satellite ones -/
  hNames : decCreate ("CREATE TABLE platform_names ".toList ++ namesTable) = none

variable (ts : TextScheme)

/-- "no such table" / "table already exists" / an unknown command -/
def failOp : MS Db Unit := fun db => (Except.error (Exc.named "sqlite3.OperationalError"), db)

/-- `CREATE TABLE platform_names ...` -/
def createNames : MS Db Unit := fun db =>
  match db.names with
  | none => (Except.ok (), { db with names := some [] })
  | some _ => (Except.error (Exc.named "sqlite3.OperationalError"), db)

/-- `self.db.execute(cmd)` -/
def dbExecute (cmd : Str) : MS Db Unit :=
  if cmd = "CREATE TABLE platform_names ".toList ++ ts.namesTable then createNames
  else match ts.decCreate cmd with
    | some sat => execMS (.createTable sat)
    | none => failOp

/-- `self.db.execute(PLATFORM_VALUES, (num, name))` -/
def dbExecuteName (cmd : Str) (n : Int) (name : Str) : MS Db Unit :=
  if cmd = ts.nameText then execMS (.insertName n.toNat name) else failOp

/-- `self.db.execute(cmd, (epoch, tle, now, source))`: `insertion_time` is not modelled -/
def dbExecuteRow (cmd epoch tle now source : Str) : MS Db Unit :=
  match ts.decRow cmd with
  | some sat => execMS (.insertRow sat ⟨epoch, tle, source⟩)
  | none => failOp

def tableExistsInt (n : Int) : MS Db Bool := fun db => (Except.ok (decide (0 ≤ n) && (db.tableOf n.toNat).isSome), db)
def tableExistsStr (name : Str) : MS Db Bool := fun db =>
  (Except.ok (decide (name = "platform_names".toList) && db.names.isSome), db)

/-- `config["platforms"]` as the Python dict the object holds -/
def platformsOf (cfg : Cfg) : Dict Int Str := cfg.platforms.map fun p => ((p.1 : Int), p.2)

theorem dictGet_platforms (cfg : Cfg) (n : Nat) : dictGet? (platformsOf cfg) (n : Int) = cfg.nameOf n := by
  unfold platformsOf Cfg.nameOf
  induction cfg.platforms with
  | nil => rfl
  | cons p ps ih =>
    obtain ⟨k, v⟩ := p
    simp only [List.map_cons, dictGet?, lookupNat, Int.natCast_inj]
    by_cases h : k = n <;> simp [h, ih]

/-- **C15 tie (`__init__`).**  Opening an archive: the store is the file's database; `platform_names` is created when it
    does not exist; `updated` starts False: the model's `openDb` -/
theorem init_eq [Inhabited WriterConfig] (db : Db) (path : Str) (cfg : Cfg) (wc : WriterConfig) :
    SQLiteTLE.__init__ (PLATFORM_NAMES_TABLE := ts.namesTable) (db_execute := dbExecute ts)
        (sqlite3_connect := fun _ => (pure () : MS Db Unit)) (table_exists_str := tableExistsStr) path (platformsOf cfg) wc db =
      (Except.ok ⟨platformsOf cfg, wc, (openDb db).updated⟩, (openDb db).db) := by
  obtain ⟨tables, names⟩ := db
  have hl : ['C', 'R', 'E', 'A', 'T', 'E', ' ', 'T', 'A', 'B', 'L', 'E', ' ', 'p', 'l', 'a', 't', 'f', 'o', 'r', 'm', '_', 'n',
      'a', 'm', 'e', 's', ' '] = "CREATE TABLE platform_names ".toList := by decide
  have hn : ['p', 'l', 'a', 't', 'f', 'o', 'r', 'm', '_', 'n', 'a', 'm', 'e', 's'] = "platform_names".toList := by decide
  unfold SQLiteTLE.__init__ dbExecute createNames tableExistsStr openDb SQLiteTLE.Self.unset
  simp only [hl, hn, if_true]
  cases names <;> kernel_rfl

theorem dbExecute_create (n : Nat) :
    dbExecute ts ("CREATE TABLE ".toList ++ ts.createText n) = execMS (.createTable n) := by
  unfold dbExecute
  have hne : ¬ ("CREATE TABLE ".toList ++ ts.createText n = "CREATE TABLE platform_names ".toList ++ ts.namesTable) := by
    intro h
    have h1 := ts.hCreate n
    rw [h, ts.hNames] at h1
    cases h1
  rw [if_neg hne, ts.hCreate]

/-- `updateOp` with the exception class spelled out: result (`updated` afterwards) or the exception that leaves the call,
    and the store afterwards -/
def updateResult (cfg : Cfg) (c : Conn) (sat : Nat) (e : Epoch) (l1 l2 src : List Char) : Except Exc Bool × Db :=
  let p := plan cfg c.db sat e l1 l2 src
  match runStmts c.db p with
  | (db', none) => (Except.ok (c.updated || !p.isEmpty), db')
  | (db', some (.integrity, .insertRow _ _)) => (Except.ok c.updated, db')
  | (db', some (er, _)) => (Except.error (excOf er), db')

/-- `updateResult` is the model's `updateOp`: same store, same `updated`, `done` exactly when no exception leaves -/
theorem updateResult_updateOp (cfg : Cfg) (c : Conn) (sat : Nat) (e : Epoch) (l1 l2 src : List Char) :
    (updateResult cfg c sat e l1 l2 src).2 = (updateOp cfg c sat e l1 l2 src).1.db ∧
    (match (updateResult cfg c sat e l1 l2 src).1 with
     | .ok u => (updateOp cfg c sat e l1 l2 src).2 = Out.done ∧ (updateOp cfg c sat e l1 l2 src).1.updated = u
     | .error _ => (updateOp cfg c sat e l1 l2 src).2 = Out.raised ∧ (updateOp cfg c sat e l1 l2 src).1.updated = c.updated) := by
  simp only [updateResult, updateOp]
  generalize runStmts c.db (plan cfg c.db sat e l1 l2 src) = r
  obtain ⟨db', o⟩ := r
  cases o with
  | none => simp
  | some p =>
    obtain ⟨er, st⟩ := p
    cases er <;> cases st <;> simp

/-- **C15 tie (`update_db`).**  One call of `update_db(tle, source)` as the source has it now, on any store and any value of
    `updated`: the statements of the model's `plan`, run by `runStmts`, classified as `updateOp` does. -/
theorem update_db_eq (cfg : Cfg) (db : Db) (upd : Bool) (wc : WriterConfig) (tle : TleObj) (sat : Nat) (e : Epoch)
    (l1 l2 src now : Str) (tsat tl1 tl2 tep : TleObj → Str)
    (hnum : Py.int (tsat tle) = Except.ok (sat : Int)) (hep : tep tle = iso e) (h1 : tl1 tle = l1) (h2 : tl2 tle = l2) :
    SQLiteTLE.update_db (PLATFORM_VALUES := ts.nameText) (db_execute := dbExecute ts)
        (db_execute_int_str := dbExecuteName ts) (db_execute_str4 := dbExecuteRow ts)
        (satid_table_text := ts.createText) (satid_values_text := ts.rowText) (table_exists_int := tableExistsInt)
        (tle_epoch_isoformat := tep) (tle_line1 := tl1) (tle_line2 := tl2) (tle_satnumber := tsat)
        (utcnow_isoformat := Except.ok now) ⟨platformsOf cfg, wc, upd⟩ tle src db =
      ((updateResult cfg ⟨db, upd⟩ sat e l1 l2 src).1.map fun u => ⟨platformsOf cfg, wc, u⟩,
       (updateResult cfg ⟨db, upd⟩ sat e l1 l2 src).2) := by
  have hc : ['C', 'R', 'E', 'A', 'T', 'E', ' ', 'T', 'A', 'B', 'L', 'E', ' '] = "CREATE TABLE ".toList := by decide
  unfold SQLiteTLE.update_db updateResult plan
  simp only [hnum, hep, h1, h2, hc, dbExecute_create, ms_lift_ok_bind, dictHas, dictGetItem, dictGet_platforms]
  have hj : Py.join ['\n'] [l1, l2] = joinLines l1 l2 := by simp [Py.join, joinLines]
  rw [hj]
  cases hn : cfg.nameOf sat with
  | none => simp [runStmts, ms_pure, Except.map]
  | some name =>
    simp only [Option.isSome_some, Bool.not_true, Bool.false_eq_true, if_false, ms_lift_ok_bind, pure_eq,
      show (liftM (Except.ok name : Except Exc Str) : MS Db Str) = (pure name : MS Db Str) from rfl, pure_bind]
    cases ht : db.tableOf sat with
    | some rows =>
      simp only [ms_bind, ms_pure, ms_throw, ms_tryCatch, tableExistsInt, ht, heapGet, heapSet, dbExecuteRow, ts.hRow, execMS,
        exec, runStmts, List.nil_append, stateT_pure_ms, Int.toNat_natCast]
      cases hk : hasKey rows (iso e) <;>
        simp [hk, ht, ms_pure, ms_throw, ms_bind, ms_tryCatch, heapGet, heapSet, execMS, exec, excOf, Except.map,
          stateT_pure_ms]
    | none =>
      have hnew : lookupNat (db.tables ++ [(sat, ([] : List Row))]) sat = some [] := by
        have : ∀ (l : List (Nat × List Row)), lookupNat l sat = none → lookupNat (l ++ [(sat, ([] : List Row))]) sat = some [] := by
          intro l
          induction l with
          | nil => intro _; simp [lookupNat]
          | cons p ps ih =>
            obtain ⟨k, v⟩ := p
            intro h
            by_cases hk : k = sat
            · simp [lookupNat, hk] at h
            · simp only [lookupNat, hk, if_false] at h
              simp [lookupNat, hk, ih h]
        exact this _ ht
      have hset : setTable (db.tables ++ [(sat, ([] : List Row))]) sat
          [⟨iso e, joinLines l1 l2, src⟩] = db.tables ++ [(sat, [⟨iso e, joinLines l1 l2, src⟩])] := by
        have : ∀ (l : List (Nat × List Row)) (r : List Row), lookupNat l sat = none →
            setTable (l ++ [(sat, ([] : List Row))]) sat r = l ++ [(sat, r)] := by
          intro l r
          induction l with
          | nil => intro _; simp [setTable]
          | cons p ps ih =>
            obtain ⟨k, v⟩ := p
            intro h
            by_cases hk : k = sat
            · simp [lookupNat, hk] at h
            · simp only [lookupNat, hk, if_false] at h
              simp [setTable, hk, ih h]
        exact this _ _ ht
      have ht' : lookupNat db.tables sat = none := ht
      cases hnames : db.names with
      | none =>
        simp [ht, ht', hnames, hnew, hset, Db.tableOf, ms_pure, ms_throw, ms_bind, ms_tryCatch, heapGet, heapSet, execMS, exec, excOf,
          Except.map, stateT_pure_ms, tableExistsInt, dbExecuteName, dbExecuteRow, ts.hRow, runStmts, hasKey]
      | some ns =>
        cases hh : hasName ns sat <;>
          simp [ht, ht', hnames, hh, hnew, hset, Db.tableOf, ms_pure, ms_throw, ms_bind, ms_tryCatch, heapGet, heapSet, execMS, exec,
            excOf, Except.map, stateT_pure_ms, tableExistsInt, dbExecuteName, dbExecuteRow, ts.hRow, runStmts, hasKey]

/-- the hypotheses on the SQL texts are satisfiable (any scheme from which the table number can be read back will do; the
    real one writes the number in decimal between quotes, this one in unary) -/
example : TextScheme where
  createText n := List.replicate n.toNat 'x'
  rowText n := List.replicate n.toNat 'y'
  nameText := "N".toList
  namesTable := "p".toList
  decCreate s := if (s.drop 13).all (· == 'x') then some (s.length - 13) else none
  decRow s := if s.all (· == 'y') then some s.length else none
  hCreate n := by
    have h13 : "CREATE TABLE ".toList.length = 13 := by decide
    have hd : ("CREATE TABLE ".toList ++ List.replicate n 'x').drop 13 = List.replicate n 'x' := by
      rw [← h13, List.drop_left]
    simp only [Int.toNat_natCast, hd, List.length_append, h13, List.length_replicate]
    simp
  hRow n := by simp
  hNames := by decide

end PV.Equiv.TranslatedDb
