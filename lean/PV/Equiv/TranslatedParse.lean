/-
  PV.Equiv.TranslatedParse — tie T-D for C02: the translation of `Tle._parse_tle` (with its nested
  `_read_tle_decimal`) is the model `PV.TleParse.parse` interpreting the generated column table `PV.Gen.tleColumns`,
  for ALL pairs of lines with an ASCII first line, when the parameters `float`, `int` (on a field) and the epoch
  expression are the model's `pyFloat`, `pyInt` and `epochOf`.  So the column table that T-B reads off the AST is a
  consequence of the source, statement by statement: slice bounds, converter, order of the assignments (the first failing
  statement decides the exception), the `try/except ValueError` of `ephemeris_type`, `* 10 ** -7`.
-/
import PV.Equiv.TranslatedInit
import PV.Model.TleParse
set_option linter.unusedSimpArgs false
set_option linter.unusedVariables false

namespace PV.Equiv.TranslatedParse
open PV.Py PV.Gen.T PV.TleParse PV.Text PV.Gen PV.Equiv.TL

/-- the exception class of each model error; the two model-only classes become marker names -/
def excOfErr : Err → Exc
  | .valueError => Exc.ValueError
  | .indexError => Exc.IndexError
  | .outOfModel => Exc.named "model:outOfModel"
  | .badTable => Exc.named "model:badTable"

def liftErr {α : Type} : Except Err α → M α
  | .ok a => Except.ok a
  | .error e => Except.error (excOfErr e)

@[simp] theorem liftErr_ok {α : Type} (a : α) : liftErr (Except.ok a) = Except.ok a := rfl
@[simp] theorem liftErr_error {α : Type} (e : Err) : liftErr (Except.error e : Except Err α) = Except.error (excOfErr e) := rfl

/-- exact decimals under the float operations the source applies: `int * 10 ** -7` -/
instance : FloatOps Dec where
  ofInt i := ⟨i, 0⟩
  intPow b e := if b = 10 then ⟨1, e⟩ else ⟨0, 0⟩     -- a `Dec` holds powers of ten only
  mul a b := ⟨a.mant * b.mant, a.exp + b.exp⟩
  sub a b :=
    let e := min a.exp b.exp
    ⟨a.mant * 10 ^ (a.exp - e).toNat - b.mant * 10 ^ (b.exp - e).toNat, e⟩

/-- the parameters, instantiated with the model's conversions -/
def fl (s : Str) : M Dec := liftErr (ofPy (pyFloat s))
def it (s : Str) : M Int := liftErr (ofPy (pyInt s))
def ep (yy : Str) (d : Dec) : M Int := liftErr (epochOf yy d)

theorem slice_neg2_none {α : Type} (l : List α) : Py.slice l (some (-2)) none = l.drop (l.length - 2) := by
  simp only [Py.slice, bound, List.take_length]
  congr 1
  simp only [show ((-2 : Int) < 0) from by decide, if_true]
  omega

theorem slice_1_neg2 {α : Type} (l : List α) : Py.slice l (some 1) (some (-2)) = (l.take (l.length - 2)).drop 1 := by
  simp only [Py.slice, bound]
  have h1 : ((-2 : Int) + (l.length : Nat)).toNat = l.length - 2 := by omega
  simp only [show ((-2 : Int) < 0) from by decide, show ¬ ((1 : Int) < 0) from by decide, if_true, if_false, h1]
  by_cases h : 1 ≤ l.length
  · have : min (1 : Int).toNat l.length = 1 := by simp; omega
    rw [this]
  · have : l = [] := by cases l with | nil => rfl | cons a t => simp at h
    subst this; rfl

theorem slice_none_neg2 {α : Type} (l : List α) : Py.slice l none (some (-2)) = l.take (l.length - 2) := by
  simp only [Py.slice, bound, List.drop_zero]
  congr 1
  simp only [show ((-2 : Int) < 0) from by decide, if_true]
  omega

theorem index_zero {α : Type} (l : List α) :
    Py.index l 0 = match l with | [] => Except.error Exc.IndexError | c :: _ => Except.ok c := by
  cases l <;> rfl

theorem ascii_take {l : List Char} (n : Nat) (h : Ascii l) : Ascii (l.take n) := fun c hc => h c (List.mem_of_mem_take hc)
theorem ascii_drop {l : List Char} (n : Nat) (h : Ascii l) : Ascii (l.drop n) := fun c hc => h c (List.mem_of_mem_drop hc)

/-- `_read_tle_decimal` of the source is the model's `readTleDecimal` (ASCII field) -/
theorem read_tle_decimal_eq (rep : Str) (h : Ascii rep) :
    Tle._parse_tle._read_tle_decimal (float_ := fl) rep = liftErr (readTleDecimal rep) := by
  unfold Tle._parse_tle._read_tle_decimal readTleDecimal
  cases rep with
  | nil => rfl
  | cons c0 r =>
    have hs1 := strip_ascii (ascii_drop 1 (ascii_take ((c0 :: r).length - 2) h))
    have hs2 := strip_ascii (ascii_take ((c0 :: r).length - 2) h)
    simp only [index_zero, ok_bind, slice_1_neg2, slice_neg2_none, slice_none_neg2, hs1, hs2, pure_eq]
    by_cases hc : c0 = '-' ∨ c0 = ' ' ∨ c0 = '+'
    · have : [['-'], [' '], ['+']].contains [c0] = true := by rcases hc with h | h | h <;> subst h <;> decide
      simp only [this, hc, if_true, fl, List.append_assoc, List.cons_append, List.nil_append, List.singleton_append]
    · have : [['-'], [' '], ['+']].contains [c0] = false := by
        simp only [not_or] at hc
        simp [hc.1, hc.2.1, hc.2.2]
      simp only [this, hc, if_false, Bool.false_eq_true, fl, List.append_assoc, List.cons_append, List.nil_append, List.singleton_append]

variable {IO : Type}

def withFields (self : Tle.Self Dec IO Int) (t : TleParse.Tle) : Tle.Self Dec IO Int :=
  { self with
    satnumber := some t.satnumber, classification := some t.classification, id_launch_year := some t.id_launch_year,
    id_launch_number := some t.id_launch_number, id_launch_piece := some t.id_launch_piece, epoch_year := some t.epoch_year,
    epoch_day := some t.epoch_day, epoch := some t.epochUs, mean_motion_derivative := some t.mean_motion_derivative,
    mean_motion_sec_derivative := some t.mean_motion_sec_derivative, bstar := some t.bstar,
    ephemeris_type := some t.ephemeris_type, element_number := some t.element_number, inclination := some t.inclination,
    right_ascension := some t.right_ascension, excentricity := some t.excentricity, arg_perigee := some t.arg_perigee,
    mean_anomaly := some t.mean_anomaly, mean_motion := some t.mean_motion, orbit := some t.orbit }

/-- `l[a:b]` with non-negative literal bounds is the model's `slice` -/
theorem slice_nonneg {α : Type} (l : List α) (a b : Int) (ha : 0 ≤ a) (hb : 0 ≤ b) :
    Py.slice l (some a) (some b) = (l.take b.toNat).drop a.toNat := by
  simp only [Py.slice, bound, show ¬ a < 0 by omega, show ¬ b < 0 by omega, if_false]
  have ht : List.take (min b.toNat l.length) l = List.take b.toNat l := (List.take_eq_take_min).symm
  rw [ht]
  by_cases h2 : a.toNat ≤ l.length
  · rw [Nat.min_eq_left h2]
  · rw [Nat.min_eq_right (by omega)]
    rw [List.drop_eq_nil_of_le (by simp [List.length_take]; omega), List.drop_eq_nil_of_le (by simp [List.length_take]; omega)]

/-- `l[k]` with a non-negative literal index, in the model's terms: IndexError on a short line, else the one-character slice -/
theorem index_nonneg (l : List Char) (k : Int) (hk : 0 ≤ k) :
    Py.index l k = if l.length ≤ k.toNat then Except.error Exc.IndexError else Except.ok (l.getD k.toNat ' ') := by
  unfold Py.index
  simp only [show ¬ k < 0 by omega, if_false]
  by_cases h : l.length ≤ k.toNat
  · simp [h]
  · have h' : k.toNat < l.length := by omega
    simp [h, List.getElem?_eq_getElem h', List.getD_eq_getElem?_getD]

theorem slice_width1 (l : List Char) (k : Nat) (h : ¬ l.length ≤ k) : (l.take (k + 1)).drop k = [l.getD k ' '] := by
  rw [List.drop_take, show k + 1 - k = 1 by omega]
  cases hdk : l.drop k with
  | nil => simp at hdk; omega
  | cons a t =>
    have h1 := congrArg List.head? hdk
    simp only [List.head?_drop, List.head?_cons] at h1
    simp [List.getD_eq_getElem?_getD, h1]

/-- marker for the computations both sides perform in the same order; the proof abstracts them one after the other -/
def atom {α : Type} (x : α) : α := x

theorem index_atom (l : List Char) (k : Int) (hk : 0 ≤ k) :
    Py.index l k = match atom (l[k.toNat]?) with | some c => Except.ok c | none => Except.error Exc.IndexError := by
  unfold Py.index atom
  simp only [show ¬ k < 0 by omega, if_false]
  cases l[k.toNat]? <;> rfl

theorem fl_atom (s : Str) : fl s = liftErr (ofPy (atom (pyFloat s))) := rfl
theorem it_atom (s : Str) : it s = liftErr (ofPy (atom (pyInt s))) := rfl
theorem ep_atom (s : Str) (d : Dec) : ep s d = liftErr (atom (epochOf s d)) := rfl

section
variable {ε α β : Type}
@[simp] theorem ok_bind' (a : α) (f : α → Except ε β) : (Except.ok a >>= f) = f a := rfl
@[simp] theorem error_bind' (e : ε) (f : α → Except ε β) : ((Except.error e : Except ε α) >>= f) = Except.error e := rfl
end

theorem ofPy_ok {α : Type} (a : α) : ofPy (Py.ok a) = Except.ok a := rfl
theorem ofPy_valueError {α : Type} : ofPy (Py.valueError : Py α) = Except.error Err.valueError := rfl
theorem ofPy_outOfModel {α : Type} : ofPy (Py.outOfModel : Py α) = Except.error Err.outOfModel := rfl
theorem map_ok {ε α β : Type} (f : α → β) (a : α) : Except.map f (Except.ok a : Except ε α) = Except.ok (f a) := rfl
theorem map_error {ε α β : Type} (f : α → β) (e : ε) : Except.map f (Except.error e : Except ε α) = Except.error e := rfl
theorem lookup_cons_eq (a : String) (v : Val) (r : List (String × Val)) : lookup a ((a, v) :: r) = some v := by
  simp [lookup]
theorem lookup_cons_ne (a k : String) (v : Val) (r : List (String × Val)) (h : k ≠ a) : lookup a ((k, v) :: r) = lookup a r := by
  simp [lookup, h]
theorem stateT_pure_apply {σ α : Type} (a : α) (s : σ) : (pure a : StateT σ M α) s = Except.ok (a, s) := rfl
theorem exc_beq (a b : Exc) : (a == b) = decide (a = b) := rfl

/-- the rest of `step` once the value of the row is known -/
def stepTail (st : St) (c : Col) (v : Val) : Except Err St :=
  let vals := (c.attr, v) :: st.vals
  if c.attr = "epoch_day" then
    match lookup "epoch_year" vals, v with
    | some (.str yy), .dec d =>
      match atom (epochOf yy d) with
      | .ok e => .ok { vals := vals, epoch := some e }
      | .error e => .error e
    | _, _ => .error .badTable
  else .ok { st with vals := vals }

theorem step_eq (l1 l2 : List Char) (st : St) (c : Col) :
    step l1 l2 st c = (rowValue c l1 l2 >>= fun v => stepTail st c v) := by
  unfold step stepTail atom
  cases rowValue c l1 l2 <;> rfl

theorem runRows_nil (l1 l2 : List Char) (st : St) : runRows l1 l2 [] st = Except.ok st := rfl

theorem runRows_cons' (l1 l2 : List Char) (c : Col) (cs : List Col) (st : St) :
    runRows l1 l2 (c :: cs) st = (rowValue c l1 l2 >>= fun v => stepTail st c v >>= fun st' => runRows l1 l2 cs st') := by
  simp only [runRows, step_eq]
  cases rowValue c l1 l2 with
  | error e => rfl
  | ok v => simp only [ok_bind']; cases stepTail st c v <;> rfl

/-- a width-1 column is the index access `line[i]` -/
theorem rowValue_index (attr : String) (line start : Nat) (conv : Conv) (l1 l2 : List Char) (h : line = 1 ∨ line = 2) :
    rowValue ⟨attr, line, start, start + 1, conv⟩ l1 l2 =
      match atom ((if line = 1 then l1 else l2)[start]?) with
      | none => Except.error Err.indexError
      | some ch => convert conv [ch] := by
  unfold rowValue atom
  simp only [h, if_true, true_and]
  by_cases hl : (if line = 1 then l1 else l2).length ≤ start
  · simp [hl]
  · have hl' : start < (if line = 1 then l1 else l2).length := by omega
    have := slice_width1 _ _ hl
    simp only [Text.slice, this, hl, if_false, List.getElem?_eq_getElem hl', List.getD_eq_getElem?_getD, Option.getD_some]

/-- every other column is the slice `line[a:b]` -/
theorem rowValue_slice (attr : String) (line start stop : Nat) (conv : Conv) (l1 l2 : List Char) (h : line = 1 ∨ line = 2)
    (hw : stop ≠ start + 1) :
    rowValue ⟨attr, line, start, stop, conv⟩ l1 l2 = convert conv (((if line = 1 then l1 else l2).take stop).drop start) := by
  unfold rowValue
  simp only [h, if_true, hw, false_and, if_false, Text.slice]

theorem convert_atom (c : Conv) (s : List Char) : convert c s =
    match c with
    | .str => .ok (.str s)
    | .int => (ofPy (atom (pyInt s))).map .int
    | .intOr0 =>
      match atom (pyInt s) with
      | .ok i => .ok (.int i)
      | .valueError => .ok (.int 0)
      | .outOfModel => .error .outOfModel
    | .float => (ofPy (atom (pyFloat s))).map .dec
    | .expo => (atom (readTleDecimal s)).map .dec
    | .intE7 => (ofPy (atom (pyInt s))).map fun i => .dec ⟨i, -7⟩ := by
  cases c <;> rfl

macro "parse_step" : tactic => `(tactic|
  (generalize atom _ = r
   cases r <;>
     simp (disch := decide) only [ok_bind', ok_bind, error_bind', error_bind, liftErr_ok, liftErr_error, ofPy_ok,
        ofPy_valueError, ofPy_outOfModel, map_ok, map_error, tryCatch_ok, tryCatch_error, pure_eq, throw_eq, exc_beq,
        reduceCtorEq, decide_false, decide_true, Bool.false_eq_true, if_true, if_false, excOfErr, lookup_cons_eq,
        lookup_cons_ne, need_some, stateT_pure_apply] <;>
     try rfl))

/-- **C02 tie.**  `Tle._parse_tle` as the source has it now (column bounds, converters, statement order, the
    `try/except ValueError`, `* 10 ** -7`) is the model `parse` run on the generated column table; `withFields` writes the
    model's record into the attributes.  Errors correspond class by class (`excOfErr`). -/
theorem parse_tle_eq (self : Tle.Self Dec IO Int) (l1 l2 : Str) (h1 : self._line1 = some l1) (h2 : self._line2 = some l2) (a1 : Ascii l1) :
    Tle._parse_tle (float_ := fl) (epoch_of_year_and_day := ep) (int_ := it) self = (liftErr (parse tleColumns l1 l2) >>= fun t => Except.ok (withFields self t)) := by
  unfold Tle._parse_tle
  have hdec : ∀ a b : Nat, Tle._parse_tle._read_tle_decimal (float_ := fl) ((l1.take b).drop a) = liftErr (atom (readTleDecimal ((l1.take b).drop a))) :=
    fun a b => read_tle_decimal_eq _ (ascii_drop a (ascii_take b a1))
  simp (disch := decide) only [h1, h2, need_some, ok_bind, pure_eq, slice_nonneg, index_atom, Int.reduceToNat, hdec,
    fl_atom, it_atom, ep_atom]
  unfold parse tleColumns
  simp (disch := decide) only [runRows_cons', rowValue_index, rowValue_slice, convert_atom, if_true, if_false, Nat.reduceEqDiff, runRows_nil]
  simp only [ok_bind', ok_bind, stepTail, String.reduceEq, if_false, if_true]
  repeat' parse_step
  all_goals
    simp (disch := decide) only [pack, getStr, getDec, getInt, lookup_cons_eq, lookup_cons_ne, ok_bind', liftErr_ok]
  all_goals
    simp only [withFields, h1, h2, FloatOps.mul, FloatOps.ofInt, FloatOps.intPow, if_true, Int.mul_one, Int.zero_add]

/-! ### `Tle(platform, line1=l1, line2=l2)` end to end -/
section
open PV.Checksum PV.Equiv.TranslatedInit PV.Equiv.TranslatedChecksum
variable {O U : Type}

/-- **C02/C09 tie, composed.**  For ASCII lines without an inner line break, the object the real constructor builds (or
    the exception it raises) is what the model says: `tleOfLines (parse tleColumns)`: checksum first (line 1, then
    line 2, on the stripped lines), parse only after acceptance, on the stripped lines. -/
theorem init_eq_model (gu : FileArg IO → M (U × O)) (gf : U → O → Str → M Str) (platform : Str) (tle_file : FileArg IO)
    (l1 l2 : Str) (a1 : Ascii l1) (a2 : Ascii l2) (n1 : '\n' ∉ Text.strip l1) (n2 : '\n' ∉ Text.strip l2) :
    Tle.__init__ (get_uris_and_open_func := gu) (get_first_tle := gf) (float_ := fl) (epoch_of_year_and_day := ep) (int_ := it) platform tle_file (some l1) (some l2) =
      joinOutcome (tleOfLines (fun a b => liftErr (parse tleColumns a b) >>= fun t =>
        Except.ok (withFields (initSelf platform tle_file (some a) (some b)) t)) l1 l2) := by
  rw [init_lines_eq_tleOfLines gu gf fl ep it platform tle_file l1 l2 a1 a2 n1 n2]
  rw [joinOutcome_tleOfLines, joinOutcome_tleOfLines]
  rw [parse_tle_eq _ (Text.strip l1) (Text.strip l2) rfl rfl (ascii_strip a1)]
end

example : Ascii TranslatedChecksum.iss1 := by unfold Ascii; decide +kernel

end PV.Equiv.TranslatedParse
