/-
  PV.Equiv.TranslatedCrossingReal — tie T-D for C11, read over ℝ: the hypotheses of `crossRoot_crossingTime` hold for the
  real reading of the float operations (PV.Equiv.TranslatedOrbitNumReal), so the root `get_equatorial_crossing_time`
  converts is `PV.OrbitNum.crossingTime` over ℝ, the function the C11 theorems are about.
-/
import PV.Equiv.TranslatedCrossing
import PV.Equiv.TranslatedOrbitNumReal
set_option linter.unusedSectionVars false

namespace PV.Equiv.TranslatedCrossingReal
open PV PV.Py PV.Equiv.TranslatedCrossing PV.Equiv.TranslatedOrbitNumReal

theorem toInt_pyInt (x : ℝ) : ((FloatArith.toInt x : Int) : ℝ) = OrbitNum.pyInt x := by
  unfold OrbitNum.pyInt
  simp only [FloatArith.toInt, r_lt, decide_eq_true_eq, r_neg, r_floor]
  by_cases h : x < 0
  · have h0 : x < (@OfNat.ofNat ℝ 0 instOfNatNum) := by simpa using h
    simp only [h, h0, if_true]
    rw [Int.floor_neg]; push_cast; ring
  · have h0 : ¬ x < (@OfNat.ofNat ℝ 0 instOfNatNum) := by simpa using h
    simp only [h, h0, if_false]

theorem crossRoot_crossingTime_real (n : Int → ℝ) (ofTick : Int → ℝ) (toTick : ℝ → Int)
    (bisF : (ℝ → ℝ) → ℝ → ℝ → Option ℝ) (tstart tend : Int) (desc : Bool) :
    (crossRoot n ofTick toTick bisF tstart tend desc).map toTick =
      OrbitNum.crossingTime n ofTick toTick bisF tstart tend desc := by
  apply crossRoot_crossingTime
  · intro a b; rfl
  · intro a b; rfl
  · show ((5 : ℕ) : ℝ) * (10 : ℝ) ^ (-1 : ℤ) = _
    simp only [r_ofSci]; norm_num
  · intro x; exact toInt_pyInt x
  · intro x y
    rw [← toInt_pyInt, ← toInt_pyInt]
    unfold OrbitNum.feq
    simp only [r_le, r_sub]
    generalize (FloatArith.toInt x : Int) = a
    generalize (FloatArith.toInt y : Int) = b
    have h0 : (@OfNat.ofNat ℝ 0 instOfNatNum) = (0 : ℝ) := by simp
    rw [h0]
    by_cases h : a - b = 0
    · have : (a : ℝ) - b = 0 := by exact_mod_cast h
      simp [h, this]
    · have : (a : ℝ) - b ≠ 0 := by exact_mod_cast h
      have h' : ¬ ((a : ℝ) - b ≤ 0 ∧ 0 ≤ (a : ℝ) - b) := fun hh => this (le_antisymm hh.1 hh.2)
      have e1 : (a - b == 0) = false := by simpa using h
      have e2 : (decide ((a : ℝ) - b ≤ 0) && decide (0 ≤ (a : ℝ) - b)) = false := by
        rw [Bool.and_eq_false_iff]
        by_cases h3 : (a : ℝ) - b ≤ 0
        · right; simpa using fun h4 => h' ⟨h3, h4⟩
        · left; simpa using h3
      rw [e1, e2]

end PV.Equiv.TranslatedCrossingReal
