/-
  PV.Equiv.TranslatedNodeSearch — tie T-D for C11: the translation of `Orbital.get_last_an_time` (the backward stepping
  loop in ten-minute steps until z changes sign from below to above, the two tolerance tests, the bisection loop) is the
  model `PV.NodeSearch.lastAn`.

  WHILE LOOPS.  The source has two `while` loops; the translation gives each a fuel parameter (at most `fuel_k` passes; the
  condition is evaluated exactly as Python evaluates it; if it still holds after the last pass the result is the marker
  `Exc.outOfFuel`).  The model has fuel too.  What is proved: for ALL fuels `n`, `m` the translated function with fuels
  `(n, m)` equals the model with fuels `(n + 1, m)` (the model's stepping fuel counts condition tests, the translation's
  counts passes).  Hence: whenever the model returns a time with some fuel, the source's loops terminate and return that
  time; that they do terminate (for which orbits and fuels) is the property clause proved about the model in C11.
  Nothing is claimed about a run of the source that exhausts every fuel.

  The kernel `get_position` is a parameter: `z t` is the z coordinate at tick `t`; times are integer ticks, `step` is
  ten minutes in ticks (`np.timedelta64(10, "m")`), `t / 2` on a timedelta truncates toward zero.
-/
import PV.Equiv.TranslatedPasses
import PV.Model.NodeSearch
set_option linter.unusedVariables false
set_option linter.unusedSectionVars false
set_option linter.unusedSimpArgs false

namespace PV.Equiv.TranslatedNodeSearch
open PV PV.Py PV.Gen.T PV.NodeSearch PV.Equiv.TL PV.Equiv.TranslatedPasses

variable {α TimeArg : Type} [Num α] [Passes.FloorCeil α]

/-- numpy's datetime64 / timedelta64 arithmetic on integer ticks; `np.timedelta64(10, "m")` is `step` ticks -/
@[reducible] def timeOps (step : Int) : TimeOps Int Int where
  diff a b := a - b
  add a d := a + d
  sub a d := a - d
  divInt d k := Int.tdiv d k
  td k u := if k = 10 then step else 0

/-- what each outcome of the model means for the real call -/
def resultOf : Except Err Found → M Int
  | .ok f => Except.ok f.t
  | .error .stepFuel => Except.error Exc.outOfFuel
  | .error .bisectFuel => Except.error Exc.outOfFuel
  | .error .unbound => Except.error (Exc.named "UnboundLocalError")

variable (z : Int → α) (step : Int)

/-! ### the stepping loop -/

abbrev S1 (α : Type) := Int × Int × α × α × α × Bool

def st1 (tOld : Int) (done : Bool) : S1 α := (tOld, tOld - step, z tOld, z (tOld - step), z (tOld - step), done)

/-- `pos0[2] > 0 and pos1[2] < 0` -/
def crossing (tOld : Int) : Bool := Num.gt (z tOld) 0 && Num.lt (z (tOld - step)) 0

theorem step_phase {β : Type} (f : Unit → S1 α → M (ForInStep (S1 α)))
    (hf : ∀ tOld, f () (st1 z step tOld false) =
      if crossing z step tOld then Except.ok (ForInStep.done (st1 z step tOld true))
      else Except.ok (ForInStep.yield (st1 z step (tOld - step) false)))
    (K : S1 α → M β) (K' : Int → M β) (hK : ∀ t d, K (st1 z step t d) = K' t)
    (c : S1 α → Bool) (hcr : ∀ t d, c (st1 z step t d) = !(crossing z step t)) :
    ∀ (n : Nat) (tOld : Int),
      (forIn (List.replicate n ()) (st1 z step tOld false) f >>= fun s =>
        if (!s.2.2.2.2.2) = true then
          (if c s = true then Except.error Exc.outOfFuel else K s)
        else K s) =
      match stepLoop z step (n + 1) tOld with
      | none => Except.error Exc.outOfFuel
      | some r => K' r.1 := by
  intro n
  induction n with
  | zero =>
    intro tOld
    simp only [List.replicate_zero, List.forIn_nil, pure_eq, ok_bind, stepLoop, hcr, hK]
    by_cases hc : (Num.gt (z tOld) 0 && Num.lt (z (tOld - step)) 0) = true
    · have : crossing z step tOld = true := hc
      simp [hc, this, st1]
    · have : crossing z step tOld = false := by simpa [crossing] using hc
      simp [hc, this, st1]
  | succ n ih =>
    intro tOld
    rw [List.replicate_succ, List.forIn_cons, hf]
    by_cases hc : crossing z step tOld = true
    · have hc' : (Num.gt (z tOld) 0 && Num.lt (z (tOld - step)) 0) = true := hc
      simp only [hc, if_true, ok_bind, pure_eq, stepLoop, hc', Bool.not_true, Bool.false_eq_true, if_false]
      exact hK tOld true
    · have hc' : (Num.gt (z tOld) 0 && Num.lt (z (tOld - step)) 0) = false := by simpa [crossing] using hc
      simp only [hc, Bool.false_eq_true, if_false, ok_bind]
      rw [ih (tOld - step)]
      have hs : stepLoop z step (n + 1 + 1) tOld = (stepLoop z step (n + 1) (tOld - step)).map fun r => (r.1, r.2 + 1) := by
        rw [stepLoop]
        simp only [hc', Bool.false_eq_true, if_false]
      rw [hs]
      cases stepLoop z step (n + 1) (tOld - step) <;> rfl

/-! ### the bisection loop -/

abbrev S2 (α : Type) := Option Int × Int × Int × Int × α × α × Bool

/-- state before a pass: last `t_mid` (if any), `dt`, the bracket, and the position last asked for -/
def st2 (tm : Option Int) (dt tOld tNew : Int) (p : α) (done : Bool) : S2 α := (tm, dt, tOld, tNew, p, p, done)

variable (tol : α)

theorem bisect_phase (f : Unit → S2 α → M (ForInStep (S2 α)))
    (hf : ∀ tm dt tOld tNew p, f () (st2 tm dt tOld tNew p false) =
      if (!Num.gt (Num.abs p) tol) = true then Except.ok (ForInStep.done (st2 tm dt tOld tNew p true))
      else Except.ok (ForInStep.yield (st2 (some (mid tOld tNew)) (Int.tdiv (tOld - tNew) 2)
        (if Num.gt (z (mid tOld tNew)) 0 then mid tOld tNew else tOld)
        (if Num.gt (z (mid tOld tNew)) 0 then tNew else mid tOld tNew) (z (mid tOld tNew)) false))) :
    ∀ (m : Nat) (tm : Option Int) (dt tOld tNew : Int) (p : α),
      (forIn (List.replicate m ()) (st2 tm dt tOld tNew p false) f >>= fun s =>
        if (!s.2.2.2.2.2.2) = true then
          (if Num.gt (Num.abs s.2.2.2.2.1) tol = true then Except.error Exc.outOfFuel else boundLocal s.1)
        else boundLocal s.1) =
      if Num.gt (Num.abs p) tol then
        (match bisectLoop z tol m tOld tNew with
         | none => Except.error Exc.outOfFuel
         | some r => Except.ok r.1)
      else boundLocal tm := by
  intro m
  induction m with
  | zero =>
    intro tm dt tOld tNew p
    simp only [List.replicate_zero, List.forIn_nil, pure_eq, ok_bind, st2, bisectLoop]
    by_cases hc : Num.gt (Num.abs p) tol = true <;> simp [hc]
  | succ m ih =>
    intro tm dt tOld tNew p
    rw [List.replicate_succ, List.forIn_cons, hf]
    by_cases hc : Num.gt (Num.abs p) tol = true
    · simp only [hc, Bool.not_true, Bool.false_eq_true, if_false, ok_bind, if_true]
      rw [ih]
      rw [bisectLoop]
      by_cases hm : Num.gt (Num.abs (z (mid tOld tNew))) tol = true
      · simp only [hm, if_true]
        cases bisectLoop z tol m (if Num.gt (z (mid tOld tNew)) 0 = true then mid tOld tNew else tOld)
          (if Num.gt (z (mid tOld tNew)) 0 = true then tNew else mid tOld tNew) <;> rfl
      · simp [hm, boundLocal]
    · simp [hc, st2]

/-! ### the whole function -/

/-- **C11 tie.**  `get_last_an_time(t)` as the source has it now, with fuels `n` (stepping loop) and `m` (bisection loop):
    the model's `lastAn` with fuels `n + 1` and `m`, for every trajectory `z`, every start tick and every `step`. -/
theorem get_last_an_time_eq (self : Orbital.Self α Int) (lift : TimeArg → Int) (u : TimeArg) (n m : Nat) :
    @Orbital.get_last_an_time α Int Int TimeArg α _ _ (timeOps step) (fun t => Except.ok (z t, z t))
        (fun a => Except.ok (lift a)) (fun v _ => v) n m self u =
      resultOf (lastAn z (tolKm : α) step (n + 1) m (lift u)) := by
  unfold Orbital.get_last_an_time lastAn
  simp only [ok_bind, pure_eq, timeOps, if_true, throw_eq, error_bind, TimeOps.sub, TimeOps.diff, TimeOps.divInt, TimeOps.td,
    FloatArith.gt, FloatArith.lt, FloatArith.le, FloatArith.abs, FloatOps.ofInt, ok_bind,
    show (FloatArith.lit 1 (-3) : α) = (tolKm : α) from rfl,
    show (Passes.ofInt (0 : Int) : α) = (0 : α) from rfl, Bool.not_not]
  -- what follows the stepping loop, as a function of the final `t_old`
  let K' : Int → M Int := fun t =>
    if Num.lt (Num.abs (z t)) (tolKm : α) = true then Except.ok t
    else if Num.le (Num.abs (z (t - step))) (tolKm : α) = true then Except.ok (t - step)
    else if Num.gt (Num.abs (z (t - step))) (tolKm : α) then
      (match bisectLoop z (tolKm : α) m t (t - step) with
       | none => Except.error Exc.outOfFuel
       | some r => Except.ok r.1)
    else Except.error (Exc.named "UnboundLocalError")
  refine (step_phase z step _ ?_ _ K' ?_ _ ?_ n (lift u)).trans ?_
  · intro tOld
    simp only [st1, crossing, Num.gt]
    rcases Bool.eq_false_or_eq_true (Num.lt 0 (z tOld)) with h1 | h1 <;>
      rcases Bool.eq_false_or_eq_true (Num.lt (z (tOld - step)) 0) with h2 | h2 <;> simp [h1, h2]
  · intro t d
    simp only [st1, K', Num.gt]
    by_cases h1 : Num.lt (Num.abs (z t)) (tolKm : α) = true
    · simp [h1]
    · by_cases h2 : Num.le (Num.abs (z (t - step))) (tolKm : α) = true
      · simp [h1, h2]
      · simp only [h1, h2, Bool.false_eq_true, if_false]
        refine (bisect_phase z (tolKm : α) _ ?_ m none step t (t - step) (z (t - step))).trans ?_
        · intro tm dt tOld tNew p
          simp only [st2, Num.gt, mid, boundLocal, pure_eq, ok_bind]
          by_cases hc : Num.lt (tolKm : α) (Num.abs p) = true
          · by_cases hz : Num.lt 0 (z (tOld - (tOld - tNew).tdiv 2)) = true <;> simp [hc, hz]
          · simp [hc]
        · simp only [Num.gt, boundLocal]
          by_cases hc : Num.lt (tolKm : α) (Num.abs (z (t - step))) = true <;> simp [hc]
  · intro t d
    simp only [st1, crossing, Num.gt]
    all_goals
      rcases Bool.eq_false_or_eq_true (Num.lt 0 (z t)) with h1 | h1 <;>
        rcases Bool.eq_false_or_eq_true (Num.lt (z (t - step)) 0) with h2 | h2 <;> simp [h1, h2]
  · cases stepLoop z step (n + 1) (lift u) with
    | none => rfl
    | some r =>
      obtain ⟨t, k⟩ := r
      simp only [K']
      by_cases h1 : Num.lt (Num.abs (z t)) (tolKm : α) = true
      · simp [h1, resultOf]
      · by_cases h2 : Num.le (Num.abs (z (t - step))) (tolKm : α) = true
        · simp [h1, h2, resultOf]
        · by_cases h3 : Num.gt (Num.abs (z (t - step))) (tolKm : α) = true
          · simp only [h1, h2, h3, Bool.false_eq_true, if_false, if_true]
            cases bisectLoop z (tolKm : α) m t (t - step) with
            | none => rfl
            | some r => rfl
          · simp [h1, h2, h3, resultOf]

end PV.Equiv.TranslatedNodeSearch
