/-
  PV.Equiv.TranslatedDbExport — tie T-D for C15: the translation of `SQLiteTLE.write_tle_txt` is the model's export
  (`PV.Db.step cfg c (.export writeAlways writeName)`, the subject of `export_newest`, `export_skips_clean`,
  `export_total`): the gate `not self.updated and not write_always`, the loop over `self.platforms.items()` in dict order,
  `table_exists` / `continue`, the query `SELECT epoch, tle FROM '<satid>' ORDER BY epoch DESC LIMIT 1` with `fetchone()`,
  `row is None` / `continue`, the optional name line, `fromisoformat` (ValueError leaves the call: nothing is written), one
  file opened for writing holding `"\n".join(data)`.

  What the call writes is its result: the list of (file, text) per `write`, in order (`[]`: no file was opened).
  PARAMETERS: the store operations (`table_exists`, the query; instantiated with the model's tables and `newest`, the query
  text read back through a decoder assumed to invert it: `SelScheme`), `dt.datetime.fromisoformat` (the model's
  `parseIso`), the writer configuration look-ups, `_utcnow()`, `strftime`, `os.path.*`, `os.makedirs`, `open` (hypotheses:
  they do not raise; the directory `makedirs` creates is not kept), the age that is only logged.
-/
import PV.Equiv.TranslatedDb
set_option linter.unusedVariables false
set_option linter.unusedSectionVars false
set_option linter.unusedSimpArgs false

namespace PV.Equiv.TranslatedDbExport
open PV.Py PV.Gen.T PV.Db PV.Equiv.TL PV.Equiv.TranslatedOrbitNum PV.Equiv.TranslatedDb

variable {WriterConfig Now WFile F : Type} [FloatArith F]

/-- the text of the query and how to read the table number back from it -/
structure SelScheme where
  selText : Int → Str
  decSel : Str → Option Nat
  hSel : ∀ n : Nat, decSel (selText n) = some n

variable (ss : SelScheme)

/-- `self.db.execute("SELECT epoch, tle FROM '<sat>' ORDER BY epoch DESC LIMIT 1").fetchone()` -/
def dbFetchNewest (cmd : Str) : MS Db (Option (Str × Str)) := fun db =>
  match ss.decSel cmd with
  | none => (Except.error (Exc.named "sqlite3.OperationalError"), db)
  | some sat =>
    match db.tableOf sat with
    | none => (Except.error (Exc.named "sqlite3.OperationalError"), db)
    | some rows => (Except.ok ((newest rows).map fun r => (r.epoch, r.tle)), db)

/-- `dt.datetime.fromisoformat` -/
def fromIso (s : Str) : M Epoch :=
  match parseIso s with
  | some e => Except.ok e
  | none => Except.error Exc.ValueError

/-- what one pass of the loop of `write_tle_txt` does for the platform `p` on the store `db` -/
def passOf (db : Db) (wn : Bool) (p : Nat × Str) (data : List Str) : Except Exc (ForInStep (List Str)) × Db :=
  match db.tableOf p.1 with
  | none => (Except.ok (ForInStep.yield data), db)
  | some rows =>
    match newest rows with
    | none => (Except.ok (ForInStep.yield data), db)
    | some r =>
      match parseIso r.epoch with
      | none => (Except.error Exc.ValueError, db)
      | some _ => (Except.ok (ForInStep.yield (data ++ ((if wn then [p.2] else []) ++ [r.tle]))), db)

theorem loop_eq (wn : Bool) (body : Int × Str → List Str → MS Db (ForInStep (List Str)))
    (hbody : ∀ (p : Nat × Str) (data : List Str) (db : Db), body ((p.1 : Int), p.2) data db = passOf db wn p data) :
    ∀ (ps : List (Nat × Str)) (data : List Str) (db : Db),
      forIn (ps.map fun p => ((p.1 : Int), p.2)) data body db =
        match exportData db wn ps with
        | none => (Except.error Exc.ValueError, db)
        | some more => (Except.ok (data ++ more), db) := by
  intro ps
  induction ps with
  | nil => intro data db; simp [exportData]; rfl
  | cons p ps ih =>
    intro data db
    obtain ⟨sat, name⟩ := p
    rw [List.map_cons, List.forIn_cons, ms_bind, hbody (sat, name)]
    cases ht : db.tableOf sat with
    | none => simp only [passOf, exportData, ht]; exact ih data db
    | some rows =>
      cases hn : newest rows with
      | none => simp only [passOf, exportData, ht, hn]; exact ih data db
      | some r =>
        cases hp : parseIso r.epoch with
        | none => simp only [passOf, exportData, ht, hn, hp]
        | some e =>
          simp only [passOf, exportData, ht, hn, hp]
          rw [ih]
          cases exportData db wn ps with
          | none => rfl
          | some more => simp [List.append_assoc]

theorem join_fileText : ∀ data : List Str, Py.join ['\n'] data = fileText data
  | [] => rfl
  | [x] => rfl
  | x :: y :: r => by
    rw [Py.join, fileText, join_fileText (y :: r)]
    simp

/-- the outcome of the model's export, as what the call returns: the list of (file, text) written -/
def exportResult (cfg : Cfg) (c : Conn) (wa wn : Bool) (fid : WFile) : Except Exc (List (WFile × Str)) :=
  match (step cfg c (.export wa wn)).2 with
  | .nothing => Except.ok []
  | .file data => Except.ok [(fid, fileText data)]
  | _ => Except.error Exc.ValueError

/-- **C15 tie (`write_tle_txt`).**  On any store, any value of `updated` and any configuration: the call leaves the store
    as it is and returns `[]` (the model's `nothing`), one write of `fileText data` to the file named by the pattern (the
    model's `file data`), or raises ValueError (the model's `raised`), exactly as `step cfg ⟨db, upd⟩ (.export wa wn)`. -/
theorem write_tle_txt_eq (cfg : Cfg) (db : Db) (upd : Bool) (wc : WriterConfig) (age : Epoch → F) (strf : Now → Str → M Str)
    (ow : Str → M WFile) (mk : Str → M Unit) (dn : Str → Str) (ex : Str → Bool) (pj : Str → Str → Str) (now : Now)
    (fpat odir : WriterConfig → M Str) (wa wn : WriterConfig → Bool) (od fp fname : Str) (fid : WFile)
    (hod : odir wc = Except.ok od) (hfp : fpat wc = Except.ok fp) (hstrf : strf now (pj od fp) = Except.ok fname)
    (hmk : ex (dn fname) = false → mk (dn fname) = Except.ok ()) (hopen : ow fname = Except.ok fid) :
    SQLiteTLE.write_tle_txt (age_hours := age) (datetime_fromisoformat := fromIso) (db_fetchone_str2 := dbFetchNewest ss)
      (now_strftime := strf) (open_write := ow) (os_makedirs := mk) (os_path_dirname := dn) (os_path_exists := ex)
      (os_path_join := pj) (select_newest_text := ss.selText) (table_exists_int := tableExistsInt) (utcnow := now)
      (writer_config_filename_pattern := fpat) (writer_config_output_dir := odir) (writer_config_write_always := wa)
      (writer_config_write_name := wn) ⟨platformsOf cfg, wc, upd⟩ db
      = (exportResult cfg ⟨db, upd⟩ (wa wc) (wn wc) fid, db) := by
  unfold SQLiteTLE.write_tle_txt exportResult step
  simp only []
  by_cases hg : (!upd && !wa wc) = true
  · simp only [hg, if_true]; rfl
  · have hbody : ∀ (p : Nat × Str) (data : List Str) (db : Db),
        (fun (kv__1 : Int × Str) (__s : List Str) => (do
          let __do_lift ← tableExistsInt kv__1.fst
          if (!__do_lift) = true then pure (ForInStep.yield __s)
            else do
              let __do_lift ← dbFetchNewest ss (ss.selText kv__1.fst)
              if __do_lift.isNone = true then pure (ForInStep.yield __s)
                else do
                  let u__2 ← liftM (need __do_lift)
                  if wn wc = true then do
                      let _ ← liftM (fromIso u__2.fst)
                      pure (ForInStep.yield (__s ++ [kv__1.snd] ++ [u__2.snd]))
                    else do
                      let _ ← liftM (fromIso u__2.fst)
                      pure (ForInStep.yield (__s ++ [u__2.snd])) : MS Db (ForInStep (List Str)))) ((p.1 : Int), p.2) data db
          = passOf db (wn wc) p data := by
      intro p data db
      obtain ⟨sat, name⟩ := p
      have fin : ∀ (x : Except Exc (ForInStep (List Str)) × Db) y, x = y → x = y := fun _ _ h => h
      cases ht : db.tableOf sat with
      | none =>
        simp [ms_bind, ms_pure, tableExistsInt, passOf, ht]
      | some rows =>
        cases hn : newest rows with
        | none =>
          simp [ms_bind, ms_pure, tableExistsInt, dbFetchNewest, ss.hSel, passOf, ht, hn]
        | some r =>
          cases hp : parseIso r.epoch with
          | none =>
            cases hw : wn wc <;>
              simp [ms_bind, ms_pure, ms_lift, tableExistsInt, dbFetchNewest, ss.hSel, passOf, ht, hn, hp, hw, fromIso, need]
          | some e =>
            cases hw : wn wc <;>
              simp [ms_bind, ms_pure, ms_lift, tableExistsInt, dbFetchNewest, ss.hSel, passOf, ht, hn, hp, hw, fromIso, need]
    have hl := loop_eq (wn wc)
        (fun (kv__1 : Int × Str) (__s : List Str) => (do
          let __do_lift ← tableExistsInt kv__1.fst
          if (!__do_lift) = true then pure (ForInStep.yield __s)
            else do
              let __do_lift ← dbFetchNewest ss (ss.selText kv__1.fst)
              if __do_lift.isNone = true then pure (ForInStep.yield __s)
                else do
                  let u__2 ← liftM (need __do_lift)
                  if wn wc = true then do
                      let _ ← liftM (fromIso u__2.fst)
                      pure (ForInStep.yield (__s ++ [kv__1.snd] ++ [u__2.snd]))
                    else do
                      let _ ← liftM (fromIso u__2.fst)
                      pure (ForInStep.yield (__s ++ [u__2.snd])) : MS Db (ForInStep (List Str))))
        hbody cfg.platforms [] db
    simp only [hg, if_false, hod, hfp, hstrf, hopen, ms_lift_ok_bind, platformsOf]
    cases hex : ex (dn fname) with
    | false =>
      simp only [Bool.not_false, if_true, Bool.false_eq_true, if_false, hmk hex, ms_lift_ok_bind, ms_bind, hl]
      cases exportData db (wn wc) cfg.platforms with
      | none => rfl
      | some data => simp [ms_pure, join_fileText]
    | true =>
      simp only [Bool.not_true, Bool.false_eq_true, if_false, ms_lift_ok_bind, ms_bind, hl]
      cases exportData db (wn wc) cfg.platforms with
      | none => rfl
      | some data => simp [ms_pure, join_fileText]

end PV.Equiv.TranslatedDbExport
