/-
  PV.Equiv.TranslatedChecksum — tie T-D for C09: the translation of `Tle._checksum` (PV/Generated/Translated.lean,
  regenerated from /repo's source on every run) is the hand-written model `PV.Checksum.lineCheck` applied to the first
  and then to the second stored line, for ALL lines whose `str.isdigit()` characters are the ASCII digits.

  Why the hypothesis: `char.isdigit()` is true for 808 code points; `int(char)` succeeds on the 680 decimal ones
  (any script) and raises ValueError on the other 128 (superscript two ...).  The model knows ASCII digits only
  (the C09 correspondence restricts itself to printable ASCII).  `exotic_digit_differs` shows the hypothesis is needed;
  `checksum_unicode` is the statement without it, against a Unicode-exact weight.
-/
import PV.Equiv.TranslatedLemmas
import PV.Generated.Translated
import PV.Model.Checksum
set_option linter.unusedSimpArgs false
set_option linter.unusedVariables false

namespace PV.Equiv.TranslatedChecksum
open PV.Py PV.Gen.T PV.Checksum PV.Text PV.Equiv.TL

/-- what one pass of the inner loop adds to `check`, for every Unicode character: the digit value (ValueError for a
    digit character that is not decimal), plus 1 for '-' -/
def weightU (c : Char) : M Nat :=
  if isdigitChar c then
    (match decimalValue c with
     | some v => Except.ok (v + (if c = '-' then 1 else 0))
     | none => Except.error Exc.ValueError)
  else Except.ok (if c = '-' then 1 else 0)

/-- left-to-right sum; the first failing character decides -/
def sumM (w : Char → M Nat) : List Char → M Nat
  | [] => Except.ok 0
  | c :: cs => w c >>= fun k => sumM w cs >>= fun t => Except.ok (k + t)

/-- a `for` loop that adds `w c` to an `int` accumulator -/
theorem forIn_accum (w : Char → M Nat) (f : Char → Int → M (ForInStep Int))
    (hf : ∀ c (s : Int), f c s = (w c >>= fun k => Except.ok (ForInStep.yield (s + (k : Int)))))
    (l : List Char) (s : Int) :
    forIn l s f = (sumM w l >>= fun t => Except.ok (s + (t : Int))) := by
  induction l generalizing s with
  | nil => simp [sumM]
  | cons c cs ih =>
    simp only [List.forIn_cons, hf, sumM]
    cases hw : w c with
    | error e => simp
    | ok k =>
      simp only [ok_bind, ih]
      cases hs : sumM w cs with
      | error e => simp
      | ok t => simp only [ok_bind]; congr 1; omega

theorem isdigit_singleton (c : Char) : isdigit [c] = isdigitChar c := by simp [isdigit]

/-- the lines the model speaks about: every character with `isdigit()` is an ASCII digit -/
def PlainDigits (l : List Char) : Prop := ∀ c ∈ l, isdigitChar c = true → isAsciiDigit c = true

theorem asciiDigit_isdigit {c : Char} (h : isAsciiDigit c = true) : isdigitChar c = true := by
  have : c.toNat < 128 := by simp only [isAsciiDigit, decide_eq_true_eq] at h; omega
  rw [isdigitChar_ascii this]; exact h

theorem isdecimal_isdigit {c : Char} {v : Nat} (h : decimalValue c = some v) : isdigitChar c = true := by
  simp [isdigitChar, isdigitN, decimalValue] at *
  simp [h]

theorem weightU_plain {c : Char} (h : isdigitChar c = true → isAsciiDigit c = true) : weightU c = Except.ok (weight c) := by
  unfold weightU weight
  by_cases hd : isdigitChar c = true
  · have ha := h hd
    have hm : c ≠ '-' := by intro e; subst e; revert ha; decide
    simp [hd, ha, decimalValue_asciiDigit ha, hm]
  · have ha : isAsciiDigit c = false := by
      cases hh : isAsciiDigit c with
      | false => rfl
      | true => exact absurd (asciiDigit_isdigit hh) hd
    simp [hd, ha]

theorem sumM_plain {l : List Char} (h : PlainDigits l) : sumM weightU l = Except.ok (sumW l) := by
  induction l with
  | nil => rfl
  | cons c cs ih =>
    have hc := weightU_plain (h c (by simp))
    have := ih (fun d hd => h d (by simp [hd]))
    simp [sumM, sumW, hc, this]

/-- the class of exception (or none) each model outcome stands for -/
def lineResult : LineOutcome → M Unit
  | .good => Except.ok ()
  | .checksumError => Except.error (Exc.named "ChecksumError")
  | .valueError => Except.error Exc.ValueError
  | .indexError => Except.error Exc.IndexError

/-- Unicode-exact outcome of the loop body of `_checksum` on one line -/
def lineCheckU (l : List Char) : M Unit :=
  sumM weightU l.dropLast >>= fun t =>
    match l.getLast? with
    | none => Except.error Exc.IndexError
    | some d =>
      match decimalValue d with
      | none => Except.error Exc.ValueError
      | some v => if t % 10 = v then Except.ok () else Except.error (Exc.named "ChecksumError")

theorem lineCheckU_plain {l : List Char} (h : PlainDigits l) : lineCheckU l = lineResult (lineCheck l) := by
  unfold lineCheckU lineCheck
  have hdl : PlainDigits l.dropLast := fun c hc => h c (List.dropLast_subset l hc)
  rw [sumM_plain hdl]
  cases hl : l.getLast? with
  | none => rfl
  | some d =>
    have hd := h d (List.mem_of_getLast? hl)
    simp only [ok_bind]
    by_cases ha : isAsciiDigit d = true
    · simp only [decimalValue_asciiDigit ha, ha, if_true]
      by_cases he : sumW l.dropLast % 10 = digitVal d <;> simp [he, lineResult]
    · cases hv : decimalValue d with
      | none => simp [ha, lineResult]
      | some v => exact absurd (hd (isdecimal_isdigit hv)) ha

/-- the body of the inner loop, whatever its syntactic shape, adds `weightU c` -/
theorem isdigitChar_dash : isdigitChar '-' = false := by decide +kernel
theorem decimalValue_dash : decimalValue '-' = none := by decide +kernel

macro "loop_body_is_weightU" : tactic => `(tactic|
  (intro c s
   unfold weightU
   by_cases hm : c = '-'
   · subst hm
     simp [isdigitChar_dash, decimalValue_dash]
   · cases hd : decimalValue c <;> cases hg : isdigitChar c <;>
       simp [hd, hg, hm, Int.add_assoc] <;> omega))

/-- evaluate the straight-line part of the outer loop body on one line -/
macro "line_cases" l:term : tactic => `(tactic|
  (cases sumM weightU (List.dropLast $l)
   case error => rfl
   simp only [ok_bind, mod_natCast, Int.zero_add]
   cases List.getLast? $l
   case none => rfl
   simp only [ok_bind]
   rename_i t d
   cases decimalValue d
   case none => rfl
   simp only [ok_bind]
   rename_i v
   by_cases h : t % 10 = v
   case neg =>
     have h' : (((t % 10 : Nat) : Int) != (v : Int)) = true := by simp [h]; omega
     simp only [h', h, if_true, if_false, throw_eq, error_bind]
   simp only [h, bne_self_eq_false, Bool.false_eq_true, if_false, if_true, pure_eq, ok_bind]))

theorem checksum_unicode {F IO T : Type} (self : Tle.Self F IO T) (a b : List Char)
    (h1 : self._line1 = some a) (h2 : self._line2 = some b) :
    Tle._checksum self = (lineCheckU a >>= fun _ => lineCheckU b) := by
  unfold Tle._checksum
  simp only [List.forIn_cons, List.forIn_nil, h1, h2, need_some, ok_bind, slice_to_neg1, index_neg1, int_singleton,
    isdigit_singleton]
  rw [forIn_accum weightU, forIn_accum weightU]
  · unfold lineCheckU
    line_cases a
    line_cases b
  all_goals loop_body_is_weightU

/-- **C09 tie.**  `Tle._checksum` as the source has it now, on the two stored lines: the model's `lineCheck` on line 1,
    then on line 2 -/
theorem checksum_eq {F IO T : Type} (self : Tle.Self F IO T) (a b : List Char)
    (h1 : self._line1 = some a) (h2 : self._line2 = some b) (ha : PlainDigits a) (hb : PlainDigits b) :
    Tle._checksum self = (lineResult (lineCheck a) >>= fun _ => lineResult (lineCheck b)) := by
  rw [checksum_unicode self a b h1 h2, lineCheckU_plain ha, lineCheckU_plain hb]

/-- the exception class (or acceptance) each `Outcome` of the model stands for -/
def outcomeResult : Outcome → M Unit
  | .accepted => Except.ok ()
  | .checksumError => Except.error (Exc.named "ChecksumError")
  | .valueError => Except.error Exc.ValueError
  | .indexError => Except.error Exc.IndexError

/-- the model's `accept` without its `strip` (which `_read_tle` performs): line 1 is judged first -/
def checkLines (a b : List Char) : Outcome :=
  match lineCheck a with
  | .good => ofLine (lineCheck b)
  | o => ofLine o

theorem accept_eq_checkLines (l1 l2 : List Char) : accept l1 l2 = checkLines (Text.strip l1) (Text.strip l2) := rfl

theorem checksum_eq_outcome {F IO T : Type} (self : Tle.Self F IO T) (a b : List Char)
    (h1 : self._line1 = some a) (h2 : self._line2 = some b) (ha : PlainDigits a) (hb : PlainDigits b) :
    Tle._checksum self = outcomeResult (checkLines a b) := by
  rw [checksum_eq self a b h1 h2 ha hb]
  unfold checkLines
  cases lineCheck a <;> cases lineCheck b <;> rfl

/-- ASCII lines (what the C09 correspondence generates) meet the hypothesis -/
theorem plainDigits_of_ascii {l : List Char} (h : Ascii l) : PlainDigits l := by
  intro c hc hd
  rw [← isdigitChar_ascii (h c hc)]; exact hd

/-- a `None` line: `line[:-1]` raises TypeError before anything else -/
theorem checksum_none {F IO T : Type} (self : Tle.Self F IO T) (h1 : self._line1 = none) :
    Tle._checksum self = Except.error Exc.TypeError := by
  unfold Tle._checksum
  simp only [List.forIn_cons, h1, need_none, error_bind]

/-! non-vacuity, and the hypothesis is needed -/
def iss1 : List Char := "1 25544U 98067A   08264.51782528 -.00002182  00000-0 -11606-4 0  2927".toList
def iss2 : List Char := "2 25544  51.6416 247.4627 0006703 130.5360 325.0288 15.72125391563537".toList

example : PlainDigits iss1 ∧ PlainDigits iss2 :=
  ⟨plainDigits_of_ascii (by unfold Ascii; decide +kernel), plainDigits_of_ascii (by unfold Ascii; decide +kernel)⟩

example : checkLines iss1 iss2 = .accepted := by decide +kernel

/-- "٣" (ARABIC-INDIC DIGIT THREE): Python adds 3 and accepts "٣3"; the model gives the character weight 0 -/
theorem exotic_digit_differs :
    lineCheckU [Char.ofNat 0x663, '3'] = Except.ok () ∧ lineCheck [Char.ofNat 0x663, '3'] = .checksumError := by
  constructor <;> decide +kernel

/-- "²2": `"²".isdigit()` is true and `int("²")` raises ValueError; the model gives weight 0 and reports a checksum error -/
theorem superscript_differs :
    lineCheckU [Char.ofNat 0xB2, '2'] = Except.error Exc.ValueError ∧ lineCheck [Char.ofNat 0xB2, '2'] = .checksumError := by
  constructor <;> decide +kernel

end PV.Equiv.TranslatedChecksum
