/-
  PV.Equiv.TranslatedDownload — tie T-D for C17: the translation of `Downloader.fetch_plain_tle` is the model
  `PV.Download.fetchPlainCfg`, for every configuration (sources with distinct names: a dict), every outcome of every
  request (a response with any status, or `requests.exceptions.Timeout`) and every text-to-entries function.

  Parameters: `requests.get` (here: `respOf u = none` is a timeout, `some r` the response), the text parser
  `_parse_tles_for_downloader((text,), io.StringIO)` (C10's subject; here total: `parseT`), the two configuration
  look-ups.  Hypotheses: `requests.get` raises nothing but Timeout; the parser does not raise (the model has no such outcome).
-/
import PV.Equiv.TranslatedLemmas
import PV.Generated.Translated
import PV.Model.Download
set_option linter.unusedSimpArgs false
set_option linter.unusedVariables false
set_option linter.unusedSectionVars false

namespace PV.Equiv.TranslatedDownload
open PV.Py PV.Gen.T PV.Download PV.Equiv.TL

variable {Config E : Type}

/-! ### dict facts -/
section dict
variable {κ ν : Type} [DecidableEq κ]

theorem dictGet_dictSet_self (d : Dict κ ν) (k : κ) (v : ν) : dictGet? (Py.dictSet d k v) k = some v := by
  induction d with
  | nil => simp [Py.dictSet, dictGet?]
  | cons p r ih =>
    obtain ⟨k', v'⟩ := p
    by_cases h : k' = k <;> simp [Py.dictSet, dictGet?, h, ih]

theorem dictSet_dictSet (d : Dict κ ν) (k : κ) (v w : ν) : Py.dictSet (Py.dictSet d k v) k w = Py.dictSet d k w := by
  induction d with
  | nil => simp [Py.dictSet]
  | cons p r ih =>
    obtain ⟨k', v'⟩ := p
    by_cases h : k' = k <;> simp [Py.dictSet, h, ih]

theorem dictSet_same (d : Dict κ ν) (k : κ) (v : ν) (h : dictGet? d k = some v) : Py.dictSet d k v = d := by
  induction d with
  | nil => simp [dictGet?] at h
  | cons p r ih =>
    obtain ⟨k', v'⟩ := p
    by_cases hk : k' = k
    · subst hk; simp [dictGet?] at h; simp [Py.dictSet, h]
    · simp [dictGet?, hk] at h; simp [Py.dictSet, hk, ih h]

theorem dictGet_of_mem_nodup : ∀ (d : Dict κ ν) (k : κ) (v : ν), (d.map Prod.fst).Nodup → (k, v) ∈ d → dictGet? d k = some v
  | [], _, _, _, h => by simp at h
  | (k', v') :: r, k, v, hn, h => by
    simp only [List.map_cons, List.nodup_cons] at hn
    by_cases hk : k' = k
    · subst hk
      rcases List.mem_cons.mp h with h | h
      · simp only [Prod.mk.injEq] at h; simp [dictGet?, h.2]
      · exact absurd (List.mem_map.mpr ⟨(k', v), h, rfl⟩) hn.1
    · rcases List.mem_cons.mp h with h | h
      · simp only [Prod.mk.injEq] at h; exact absurd h.1.symm hk
      · simp [dictGet?, hk, dictGet_of_mem_nodup r k v hn.2 h]
end dict

theorem model_dictSet_eq {S : Type} [DecidableEq S] (d : List (S × List E)) (k : S) (v : List E) :
    Download.dictSet d k v = Py.dictSet d k v := by
  induction d with
  | nil => rfl
  | cons p r ih => obtain ⟨k', v'⟩ := p; simp [Download.dictSet, Py.dictSet, ih]

/-! ### the request outcomes -/

/-- the model outcome of the request for one URI -/
def outcomeOf (respOf : Str → Option Response) (parseT : Str → List E) (u : Str) : Outcome E :=
  match respOf u with
  | none => .timeout
  | some r => .resp r.status_code.toNat (.tles (parseT r.text))

/-- `requests.get` as a parameter: a response, or Timeout -/
def getOf (respOf : Str → Option Response) (u : Str) : M Response :=
  match respOf u with
  | none => Except.error (Exc.named "requests.exceptions.Timeout")
  | some r => Except.ok r

abbrev InnerState (E : Type) := Response × Dict Str (List E) × List Str

/-- one pass of the inner loop, as the model sees it -/
def innerPass (respOf : Str → Option Response) (parseT : Str → List E) (s : Str) (uri : Str) (st : InnerState E) :
    M (ForInStep (InnerState E)) :=
  match respOf uri with
  | none => Except.error (Exc.named "TleDownloadTimeoutError")
  | some r =>
    if r.status_code = 200 then
      (match dictGet? st.2.1 s with
       | some acc => Except.ok (ForInStep.yield (r, Py.dictSet st.2.1 s (acc ++ parseT r.text), st.2.2))
       | none => Except.error Exc.KeyError)
    else Except.ok (ForInStep.yield (r, st.2.1, st.2.2 ++ [uri]))

theorem inner_loop (respOf : Str → Option Response) (parseT : Str → List E) (s : Str)
    (f : Str → InnerState E → M (ForInStep (InnerState E))) (hf : ∀ u st, f u st = innerPass respOf parseT s u st) :
    ∀ (uris : List Str) (req : Response) (tles : Dict Str (List E)) (fl : List Str) (acc : List E),
      dictGet? tles s = some acc →
      (forIn uris ((req, tles, fl) : InnerState E) f >>= fun st => Except.ok st.2) =
        match uriLoop acc fl (uris.map fun u => (u, outcomeOf respOf parseT u)) with
        | .error _ => Except.error (Exc.named "TleDownloadTimeoutError")
        | .ok (es, fl') => Except.ok (Py.dictSet tles s es, fl') := by
  intro uris
  induction uris with
  | nil => intro req tles fl acc h; simp [uriLoop, dictSet_same tles s acc h]
  | cons u us ih =>
    intro req tles fl acc h
    simp only [List.forIn_cons, hf, innerPass, List.map_cons]
    cases hr : respOf u with
    | none =>
      have ho : outcomeOf respOf parseT u = Outcome.timeout := by simp [outcomeOf, hr]
      simp [uriLoop, ho]
    | some r =>
      have ho : outcomeOf respOf parseT u = Outcome.resp r.status_code.toNat (.tles (parseT r.text)) := by
        simp [outcomeOf, hr]
      rw [ho]
      by_cases h200 : r.status_code = 200
      · have hn : r.status_code.toNat = 200 := by omega
        have h2 : (200 : Int).toNat = 200 := rfl
        simp only [h200, if_true, h, ok_bind, uriLoop, hn, h2, Body.entries, bind_assoc]
        rw [ih r _ fl (acc ++ parseT r.text) (dictGet_dictSet_self tles s _)]
        cases uriLoop (acc ++ parseT r.text) fl (us.map fun u => (u, outcomeOf respOf parseT u)) with
        | error e => rfl
        | ok p => simp [dictSet_dictSet]
      · have hn : ¬ r.status_code.toNat = 200 := by omega
        simp only [h200, if_false, ok_bind, uriLoop, hn, bind_assoc]
        exact ih r tles (fl ++ [u]) acc h

/-- the model's input for one configured source -/
def convSource (respOf : Str → Option Response) (parseT : Str → List E) (p : Str × List Str) :
    Str × List (Str × Outcome E) :=
  (p.1, p.2.map fun u => (u, outcomeOf respOf parseT u))

/-- what a model `Result` stands for -/
def resultOf : Result Str Str E → M (Dict Str (List E))
  | .dict d => Except.ok d
  | .timeoutError _ => Except.error (Exc.named "TleDownloadTimeoutError")

abbrev OuterState (E : Type) := Response × Dict Str (List E)

theorem outer_loop (respOf : Str → Option Response) (parseT : Str → List E) (sources : Dict Str (List Str))
    (inner : Str → Str → InnerState E → M (ForInStep (InnerState E)))
    (hinner : ∀ s u st, inner s u st = innerPass respOf parseT s u st)
    (g : Str → OuterState E → M (ForInStep (OuterState E)))
    (hg : ∀ s st, g s st =
      (dictGetItem sources s >>= fun us =>
        forIn us ((st.1, Py.dictSet st.2 s [], []) : InnerState E) (inner s) >>= fun st' =>
          dictGetItem st'.2.1 s >>= fun _ => Except.ok (ForInStep.yield (st'.1, st'.2.1)))) :
    ∀ (rest : List (Str × List Str)) (req : Response) (tles : Dict Str (List E)),
      (∀ p ∈ rest, dictGet? sources p.1 = some p.2) →
      (forIn (rest.map Prod.fst) ((req, tles) : OuterState E) g >>= fun st => Except.ok st.2) =
        resultOf (sourceLoop tles (rest.map (convSource respOf parseT))) := by
  intro rest
  induction rest with
  | nil => intro req tles _; rfl
  | cons p ps ih =>
    intro req tles hmem
    obtain ⟨s, us⟩ := p
    have hs : dictGet? sources s = some us := hmem (s, us) (by simp)
    have hs' : dictGetItem sources s = Except.ok us := by simp [dictGetItem, hs]
    have ih' := fun req tles => ih req tles (fun q hq => hmem q (by simp [hq]))
    simp only [List.map_cons, List.forIn_cons, hg, hs', ok_bind, bind_assoc, sourceLoop, convSource]
    -- the rest of the run does not depend on the last response
    have hK : ∀ st' : InnerState E,
        (dictGetItem st'.2.1 s >>= fun (_ : List E) =>
            forIn (ps.map Prod.fst) ((st'.1, st'.2.1) : OuterState E) g >>= fun st => Except.ok st.2) =
        (fun (q : Dict Str (List E) × List Str) =>
          dictGetItem q.1 s >>= fun (_ : List E) =>
            resultOf (sourceLoop q.1 (ps.map (convSource respOf parseT)))) st'.2 := by
      intro st'
      dsimp only
      cases hq : dictGetItem st'.2.1 s with
      | error e => rfl
      | ok v => simp only [ok_bind]; exact ih' st'.1 st'.2.1
    simp only [hK]
    have hin := inner_loop respOf parseT s (inner s) (hinner s) us req (Py.dictSet tles s []) [] []
      (dictGet_dictSet_self tles s [])
    have hsplit : ∀ (m : M (InnerState E)) (K : Dict Str (List E) × List Str → M (Dict Str (List E))),
        (m >>= fun x => K x.2) = ((m >>= fun st => Except.ok st.2) >>= K) := by
      intro m K; cases m <;> rfl
    rw [hsplit _ (fun q => dictGetItem q.1 s >>= fun (_ : List E) =>
      resultOf (sourceLoop q.1 (ps.map (convSource respOf parseT)))), hin]
    cases uriLoop ([] : List E) [] (us.map fun u => (u, outcomeOf respOf parseT u)) with
    | error e => rfl
    | ok q =>
      obtain ⟨es, fl'⟩ := q
      simp only [ok_bind, dictSet_dictSet, dictGetItem, dictGet_dictSet_self, model_dictSet_eq, pure_eq]

theorem exc_named_beq (a : String) : (Exc.named a == Exc.named a) = true := by simp
theorem stateT_pure_apply' {σ α : Type} (a : α) (s : σ) : (pure a : StateT σ M α) s = Except.ok (a, s) := rfl

/-- **C17 tie.**  `Downloader.fetch_plain_tle()` as the source has it now is the model's `fetchPlainCfg`: not
    configured gives `{}`; each source gets an entry (initially empty) in configuration order; within a source the
    URIs are requested in order, a 200 appends the parsed entries, any other status is a recorded failure and nothing
    else; the first timeout leaves through `TleDownloadTimeoutError`, whatever was collected before. -/
theorem fetch_plain_tle_eq (respOf : Str → Option Response) (parseT : Str → List E) (has : Bool)
    (sources : Dict Str (List Str)) (hnodup : (sources.map Prod.fst).Nodup) (self : Downloader.Self Config) :
    Downloader.fetch_plain_tle (config_has_fetch_plain_tle := fun _ => Except.ok has)
        (config_fetch_plain_tle := fun _ => Except.ok sources) (parse_tles_text := fun t => Except.ok (parseT t))
        (requests_get := getOf respOf) self =
      resultOf (fetchPlainCfg (if has then some (sources.map (convSource respOf parseT)) else none)) := by
  unfold Downloader.fetch_plain_tle
  cases has with
  | false => rfl
  | true =>
    simp only [ok_bind, if_true, fetchPlainCfg, fetchPlain, pure_eq]
    have key := fun g hg => outer_loop respOf parseT sources (innerPass respOf parseT) (fun _ _ _ => rfl) g hg
      sources default [] (fun p hp => dictGet_of_mem_nodup sources p.1 p.2 hnodup hp)
    refine key _ ?_
    intro s st
    obtain ⟨req, tles⟩ := st
    dsimp only
    refine bind_congr fun us => ?_
    congr 1
    · congr 1
      -- the body of the inner loop, whatever its syntactic shape, is one `innerPass`
      funext u st
      obtain ⟨req', tles', fl⟩ := st
      simp only [innerPass, getOf, dictGetItem]
      cases respOf u with
      | none => simp [tryCatch_error, exc_named_beq]
      | some r =>
        simp only [ok_bind, tryCatch_ok, stateT_pure_apply', pure_eq, throw_eq]
        by_cases h200 : r.status_code = 200
        · cases dictGet? tles' s <;> simp [h200]
        · simp [h200]
    · funext st'
      simp only [ite_self]

/-! ### Space-Track -/

variable {Session : Type}

/-- **C17 tie (Space-Track).**  `Downloader.fetch_spacetrack()` as the source has it now returns the list the model's
    `fetchSpacetrack` returns: nothing unless the login answered 200 (then `session.get` is not even called: the
    statement holds for EVERY `session_get`, also a raising one), else the parsed entries of a 200 answer to the query,
    else nothing.  The credentials posted are `{"identity": user, "password": password}`. -/
theorem fetch_spacetrack_eq (cu cp : Config → M Str) (qurl : Config → Str → M Str) (sess : Session)
    (post : Session → Str → Dict Str Str → M Response) (sget : Session → Str → M Response) (parseT : Str → List E)
    (self : Downloader.Self Config) (user password url : Str) (login : Response)
    (hu : cu self.config = Except.ok user) (hp : cp self.config = Except.ok password)
    (hq : ∀ tmpl, qurl self.config tmpl = Except.ok url)
    (hpost : ∀ u, post sess u [("identity".toList, user), ("password".toList, password)] = Except.ok login) :
    Downloader.fetch_spacetrack (config_spacetrack_user := cu) (config_spacetrack_password := cp)
        (spacetrack_query_url := qurl) (requests_Session := sess) (session_post := post) (session_get := sget)
        (parse_tles_text := fun t => Except.ok (parseT t)) self =
      if login.status_code = 200 then
        sget sess url >>= fun q =>
          Except.ok (fetchSpacetrack login.status_code.toNat q.status_code.toNat (Body.tles (parseT q.text))).1
      else Except.ok (fetchSpacetrack login.status_code.toNat 0 (Body.tles ([] : List E))).1 := by
  unfold Downloader.fetch_spacetrack
  have hid : ['i', 'd', 'e', 'n', 't', 'i', 't', 'y'] = "identity".toList := by decide
  have hpw : ['p', 'a', 's', 's', 'w', 'o', 'r', 'd'] = "password".toList := by decide
  simp only [hu, hp, hq, hid, hpw, hpost, ok_bind, pure_eq, fetchSpacetrack]
  by_cases h200 : login.status_code = 200
  · have hn : login.status_code.toNat = 200 := by omega
    simp only [h200, hn, bne_self_eq_false, Bool.false_eq_true, if_false, if_true, ne_eq, not_true_eq_false]
    cases sget sess url with
    | error e => rfl
    | ok q =>
      by_cases hq200 : q.status_code = 200
      · have hqn : q.status_code.toNat = 200 := by omega
        simp [hq200, hqn, Body.entries]
      · have hqn : ¬ q.status_code.toNat = 200 := by omega
        simp [hq200, hqn]
  · have hn : ¬ login.status_code.toNat = 200 := by omega
    simp [h200, hn]

end PV.Equiv.TranslatedDownload
