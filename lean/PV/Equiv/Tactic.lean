/-
  PV.Equiv.Tactic — the closing tactic of the T-C tie (PV/Equiv/*.lean): bridge a generic `Num` term over ℝ to Mathlib
  notation, then decide equality of the traced kernel and the hand-written model by numeral evaluation and ring
  normalisation (inside function arguments as well).  Insensitive to renaming, statement order, temporaries,
  `x**2` vs `x*x`, Horner vs expanded polynomials; sensitive to any change of the computed real function.
-/
import PV.NumReal
import Mathlib.Tactic.Ring
import Mathlib.Tactic.NormNum
set_option linter.unusedTactic false
set_option linter.unreachableTactic false

namespace PV.Equiv
open PV

theorem r_max (a b : ℝ) : Num.max a b = max a b := by
  simp only [Num.max, r_lt]
  by_cases h : a < b
  · simp [h, max_eq_right h.le]
  · simp [h, max_eq_left (not_lt.mp h)]

theorem r_min (a b : ℝ) : Num.min a b = min a b := by
  simp only [Num.min, r_lt]
  by_cases h : b < a
  · simp [h, min_eq_right h.le]
  · simp [h, min_eq_left (not_lt.mp h)]

macro "kernel_bridge" : tactic => `(tactic|
  (try simp only [r_add, r_sub, r_mul, r_div, r_neg, r_ofNat, r_ofNat', r_ofSci, r_pymod, r_fmod, r_deg2rad, r_rad2deg, r_pi,
              r_sqrt, r_sin, r_cos, r_tan, r_asin, r_acos, r_atan, r_atan2, r_abs, r_floor, r_sign, r_rpow, r_sq, r_cube,
              r_pow4, r_sel, r_lt, r_le, r_gt, r_ge, r_max, r_min, Bool.or_false, Bool.false_or, Bool.and_true, Bool.true_and,
              decide_eq_true_eq]))

macro "kernel_eq" : tactic => `(tactic|
  (all_goals first
   | rfl
   | (kernel_bridge
      all_goals first
      | rfl
      | (norm_num; done)
      | (norm_num; ring_nf; done)
      | (ring_nf; done))))

end PV.Equiv
