/-
  PV.Equiv.TranslatedPropagate — tie T-D for C13 / C18 (purity): the translation of `_SGDP4.propagate`.

  * control flow: ZERO_ECC and every mode other than NEAR_NORM are refused with NotImplementedError, NEAR_NORM is answered
    by `calculate` — the model's `PV.Sgp4.propagate` (`if mode == nearNorm then calculate else notImplemented`);
  * object-per-call structure: the translated function has no store and does not return `self`: all it reads is
    `self.mode`, `self._params` and its argument, and every call creates its own `_Keplerians(self._params)` on which
    `calculate` runs.  Hence the answer of a call is a function of (`mode`, `_params`, `utc_time`) alone: no state survives
    a call (`propagate_no_history`).  A change that keeps one `_Keplerians` on `self` (a shared scratch object) either
    introduces an attribute the translator's table does not know (generation refused) or changes this definition.
-/
import PV.Equiv.TranslatedLemmas
import PV.Generated.Translated
set_option linter.unusedVariables false

namespace PV.Equiv.TranslatedPropagate
open PV.Py PV.Gen.T PV.Equiv.TL

variable {Kep Keplerians Params TimeArg : Type}

/-- **C13 tie.**  `propagate(utc_time)` as the source has it now -/
theorem propagate_eq (nearNorm zeroEcc : Int) (kcalc : Keplerians → TimeArg → M Kep) (knew : Params → Keplerians)
    (self : _SGDP4.Self Params) (t : TimeArg) :
    _SGDP4.propagate (SGDP4_NEAR_NORM := nearNorm) (SGDP4_ZERO_ECC := zeroEcc) (keplerians_calculate := kcalc)
        (new_Keplerians := knew) self t =
      if self.mode = nearNorm ∧ self.mode ≠ zeroEcc then kcalc (knew self._params) t
      else Except.error (Exc.named "NotImplementedError") := by
  unfold _SGDP4.propagate
  by_cases h0 : self.mode = zeroEcc <;> by_cases h1 : self.mode = nearNorm <;> simp [h0, h1]
  all_goals (try (cases kcalc (knew self._params) t <;> rfl))

/-- with the source's constants (`SGDP4_ZERO_ECC = 0`, `SGDP4_NEAR_NORM = 3`): answered exactly in mode NEAR_NORM -/
theorem propagate_modes (kcalc : Keplerians → TimeArg → M Kep) (knew : Params → Keplerians)
    (self : _SGDP4.Self Params) (t : TimeArg) :
    _SGDP4.propagate (SGDP4_NEAR_NORM := 3) (SGDP4_ZERO_ECC := 0) (keplerians_calculate := kcalc)
        (new_Keplerians := knew) self t =
      if self.mode = 3 then kcalc (knew self._params) t else Except.error (Exc.named "NotImplementedError") := by
  rw [propagate_eq]
  by_cases h : self.mode = 3
  · simp [h]
  · simp [h]

/-- **C18 tie (no state survives a call).**  Two objects with the same `mode` and `_params` answer the same, whatever
    was asked of either before: the answer is a function of (`mode`, `_params`, `utc_time`). -/
theorem propagate_no_history (nearNorm zeroEcc : Int) (kcalc : Keplerians → TimeArg → M Kep) (knew : Params → Keplerians)
    (s1 s2 : _SGDP4.Self Params) (hm : s1.mode = s2.mode) (hp : s1._params = s2._params) (t : TimeArg) :
    _SGDP4.propagate (SGDP4_NEAR_NORM := nearNorm) (SGDP4_ZERO_ECC := zeroEcc) (keplerians_calculate := kcalc)
        (new_Keplerians := knew) s1 t =
    _SGDP4.propagate (SGDP4_NEAR_NORM := nearNorm) (SGDP4_ZERO_ECC := zeroEcc) (keplerians_calculate := kcalc)
        (new_Keplerians := knew) s2 t := by
  rw [propagate_eq, propagate_eq, hm, hp]

end PV.Equiv.TranslatedPropagate
