/-
  PV.Equiv.TranslatedStr — tie T-D for C02: the translation of `Tle.__str__`.

  `__str__` must not modify the object (seeded change C02-c2 popped keys of the live `__dict__`).  In the translation the
  object is READ through one cut point, `list(self.__dict__.items())` (a new list of (name, value) pairs); the dict that is
  printed is built by `dict(...)` from a comprehension over that list — a NEW dict (`Py.dictOfPairs`) —, `pprint.pprint`
  writes into a local `io.StringIO()` (a parameter: the text it writes for a dict), and the definition returns the text
  only: its type has no object in the result, i.e. every attribute after the call is the attribute before it.  An edit
  that touches `self.__dict__` in any other way (`self.__dict__.pop(k)`, `d_var = self.__dict__`, an assignment to an
  attribute) is refused by the translator or changes the result type, and `str_eq` no longer type-checks.
-/
import PV.Equiv.TranslatedLemmas
import PV.Generated.Translated
set_option linter.unusedVariables false
set_option linter.unusedSectionVars false
set_option linter.unusedSimpArgs false

namespace PV.Equiv.TranslatedStr
open PV PV.Py PV.Gen.T PV.Equiv.TL

variable {F IO PyObj T : Type}

/-- `k[0] != "_"` for a non-empty name -/
def isPublic (kv : Str × PyObj) : Bool := kv.1.head? != some '_'

theorem filter_public_of (f : Str × PyObj → M (Option (Str × PyObj)))
    (hf : ∀ kv : Str × PyObj, kv.1 ≠ [] → f kv = Except.ok (if isPublic kv then some kv else none)) :
    ∀ (items : List (Str × PyObj)), (∀ kv ∈ items, kv.1 ≠ []) → items.filterMapM f = Except.ok (items.filter isPublic)
  | [], _ => rfl
  | kv :: items, h => by
    have ih := filter_public_of f hf items (fun x hx => h x (by simp [hx]))
    rw [List.filterMapM_cons, hf kv (h kv (by simp)), List.filter_cons]
    cases isPublic kv <;> simp [ih]

theorem filter_public (items : List (Str × PyObj)) (h : ∀ kv ∈ items, kv.1 ≠ []) :
    items.filterMapM (fun kv => (do
      let k := kv.1; let v := kv.2
      if ([(← Py.index k (0 : Int))] != ['_']) then return some (k, v) else return none : M (Option (Str × PyObj)))) =
      Except.ok (items.filter isPublic) := by
  apply filter_public_of _ _ items h
  intro kv hk
  obtain ⟨k, v⟩ := kv
  cases k with
  | nil => exact absurd rfl hk
  | cons c cs =>
    have hidx : Py.index (c :: cs) (0 : Int) = Except.ok c := rfl
    simp only [hidx, ok_bind, pure_eq, isPublic, List.head?_cons]
    by_cases hc : c = '_'
    · subst hc; rfl
    · have h1 : ([c] != ['_']) = true := by simpa using hc
      have h2 : (some c != some '_') = true := by simpa using hc
      simp only [h1, h2, if_true]

/-- **`Tle.__str__`.**  For an object whose attribute names are not empty: the text `pprint` writes for the NEW dict of the
    public attributes (names not starting with "_", in `__dict__` order), without its final newline.  The result is a text
    and nothing else: the object is not in the result, no attribute is changed. -/
theorem str_eq (pp : Dict Str PyObj → Str) (items : Tle.Self F IO T → List (Str × PyObj)) (self : Tle.Self F IO T)
    (hk : ∀ kv ∈ items self, kv.1 ≠ []) :
    Tle.__str__ (pprint_text := pp) (self_dict_items := items) self =
      Except.ok (pp (Py.dictOfPairs ((items self).filter isPublic))).dropLast := by
  unfold Tle.__str__
  have h := filter_public (items self) hk
  simp only [pure_eq, bind_pure_comp] at h ⊢
  rw [h]
  simp only [ok_bind, List.nil_append, slice_to_neg1, Functor.map, Except.map]

/-- the object is read through its attribute pairs only -/
theorem str_reads_items (pp : Dict Str PyObj → Str) (items : Tle.Self F IO T → List (Str × PyObj)) (s1 s2 : Tle.Self F IO T)
    (h : items s1 = items s2) :
    Tle.__str__ (pprint_text := pp) (self_dict_items := items) s1 =
      Tle.__str__ (pprint_text := pp) (self_dict_items := items) s2 := by
  unfold Tle.__str__
  rw [h]

end PV.Equiv.TranslatedStr
