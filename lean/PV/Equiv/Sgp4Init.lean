/-
  PV.Equiv.Sgp4Init — T-C tie for the construction of the SGP4 propagator (see the table in PV/Equiv/Sgp4.lean):
  `OrbitElements.__init__`, `_check_orbital_elements`, `_SGDP4Base.__init__` and its helper methods, traced from the
  current source with cut points (PV/Generated/KernelsSgp4.lean), against PV.Model.Sgp4
  (`elements`, `oeRecover`, `elementsChecked`, `checkElements`, `basic`, `modeOf`, `s4qoms24`, `coeffs`, `init`).

  Three kinds of statements:
   (a) `S.*`       the model, stage by stage: functions of the named symbols the traced stage reads (copied from the
                   model's `let`s), and `*_stage` lemmas: the model's field is that stage applied to the model's own
                   values of the symbols (`rfl`: no computation, only unfolding);
   (b) `*_eq`      traced stage = model stage for all real arguments.  The traced definitions are applied with NAMED
                   arguments: a source change that makes a stage read another attribute changes a parameter name and the
                   statement no longer elaborates;
   (c) outcome / `_stored` kernels: the conditions under which the source raises, or stores an attribute a second time,
       against the model's guards.
-/
import PV.Equiv.Tactic
import PV.Model.Sgp4
import PV.Generated.KernelsSgp4
import Mathlib.Tactic.SplitIfs
import Mathlib.Tactic.Linarith
set_option linter.unusedTactic false
set_option linter.unreachableTactic false
set_option linter.unnecessarySeqFocus false
set_option linter.unusedSimpArgs false
set_option linter.unusedVariables false

namespace PV.Equiv.Sgp4Init
open PV PV.Num PV.Sgp4

/-- closing tactic for stages with branches: bridge, then every branch by `kernel_eq` -/
macro "stage_eq" : tactic => `(tactic|
  (first
   | rfl
   | (kernel_eq; done)
   | (split_ifs <;> (try simp only [*, if_true, if_false, not_false_eq_true, not_true_eq_false]) <;> kernel_eq; done)))

/-! ## (a) the model, stage by stage -/
namespace S
section
variable {α : Type} [Num α]

/-- `_calculate_basic_orbit_params`: (xnodp, aodp) from the symbols the source reads -/
def recover (xn_0 x3thm1 betao betao2 : α) : α × α :=
  let a1 := Num.rpow (XKE / xn_0) ((2 : α) / (3 : α))
  let temp0 := (1.5 : α) * CK2 * x3thm1 / (betao * betao2)
  let del1 := temp0 / sq a1
  let a0 := a1 * ((1 : α) - del1 * ((1 : α) / (3 : α) + del1 * ((1 : α) + del1 * (134 : α) / (81 : α))))
  let del0 := temp0 / sq a0
  (xn_0 / ((1 : α) + del0), a0 / ((1 : α) - del0))


/-- `_calculate_c_coefficients`: locals `etasq`, `psisq`, `coef_1` -/
def coef1 (coef eta : α) : α := coef / Num.rpow (Num.abs ((1 : α) - sq eta)) (3.5 : α)

def tsi (aodp get_s4_qoms24_r0 : α) : α := (1 : α) / (aodp - get_s4_qoms24_r0)
def eta (aodp eo get_s4_qoms24_r0 : α) : α := aodp * eo * tsi aodp get_s4_qoms24_r0
def eeta (eo eta : α) : α := eo * eta
def coef (aodp get_s4_qoms24_r0 get_s4_qoms24_r1 : α) : α := get_s4_qoms24_r1 * pow4 (tsi aodp get_s4_qoms24_r0)

def c2 (aodp coef eeta eta tsi x3thm1 xnodp : α) : α :=
  let etasq := sq eta
  let psisq := Num.abs ((1 : α) - etasq)
  let coef1 := coef / Num.rpow psisq (3.5 : α)
  coef1 * xnodp * (aodp * ((1 : α) + (1.5 : α) * etasq + eeta * ((4 : α) + etasq)) +
    ((0.75 : α) * CK2) * tsi / psisq * x3thm1 * ((8 : α) + (3 : α) * etasq * ((8 : α) + etasq)))

def c4 (aodp betao2 coef eeta eo eta omegao tsi x1mth2 x3thm1 xnodp : α) : α :=
  let etasq := sq eta
  let psisq := Num.abs ((1 : α) - etasq)
  let coef1 := coef / Num.rpow psisq (3.5 : α)
  (2 : α) * xnodp * coef1 * aodp * betao2 * (
    eta * ((2 : α) + (0.5 : α) * etasq) + eo * ((0.5 : α) + (2 : α) * etasq) - ((2 : α) * CK2) * tsi /
    (aodp * psisq) * (-(3 : α) * x3thm1 * ((1 : α) - (2 : α) * eeta + etasq * ((1.5 : α) - (0.5 : α) * eeta)) +
                      (0.75 : α) * x1mth2 * ((2 : α) * etasq - eeta * ((1 : α) + etasq)) *
                      Num.cos ((2 : α) * omegao)))

/-- second store of `c5` (NEAR_NORM only) -/
def c5 (aodp betao2 coef eeta eta : α) : α :=
  let etasq := sq eta
  let psisq := Num.abs ((1 : α) - etasq)
  let coef1 := coef / Num.rpow psisq (3.5 : α)
  (2 : α) * coef1 * aodp * betao2 * ((1 : α) + (2.75 : α) * (etasq + eeta) + eeta * etasq)

/-- second store of `c3` (NEAR_NORM and eo > ECC_ALL only) -/
def c3 (coef eo sinIO tsi xnodp : α) : α := coef * tsi * A3OVK2 * xnodp * AE * sinIO / eo

/-- `_calculate_dot_products`: locals `pinvsq`, `temp1`, `temp2`, `temp3` -/
def pinvsq (aodp betao2 : α) : α := (1 : α) / (sq aodp * sq betao2)
def temp1 (aodp betao2 xnodp : α) : α := (3 : α) * CK2 * pinvsq aodp betao2 * xnodp
def temp2 (aodp betao2 xnodp : α) : α := temp1 aodp betao2 xnodp * CK2 * pinvsq aodp betao2
def temp3 (aodp betao2 xnodp : α) : α := (1.25 : α) * CK4 * sq (pinvsq aodp betao2) * xnodp

def xmdot (aodp betao betao2 theta2 x3thm1 xnodp : α) : α :=
  xnodp + ((0.5 : α) * temp1 aodp betao2 xnodp * betao * x3thm1 + (0.0625 : α) * temp2 aodp betao2 xnodp * betao *
    ((13 : α) - (78 : α) * theta2 + (137 : α) * sq theta2))

def omgdot (aodp betao2 theta2 xnodp : α) : α :=
  -(0.5 : α) * temp1 aodp betao2 xnodp * ((1 : α) - (5 : α) * theta2) +
    (0.0625 : α) * temp2 aodp betao2 xnodp * ((7 : α) - (114 : α) * theta2 + (395 : α) * sq theta2) +
    temp3 aodp betao2 xnodp * ((3 : α) - (36 : α) * theta2 + (49 : α) * sq theta2)

def xhdot1 (aodp betao2 cosIO xnodp : α) : α := -temp1 aodp betao2 xnodp * cosIO

def xnodot (aodp betao2 cosIO theta2 xhdot1 xnodp : α) : α :=
  xhdot1 + ((0.5 : α) * temp2 aodp betao2 xnodp * ((4 : α) - (19 : α) * theta2) +
    (2 : α) * temp3 aodp betao2 xnodp * ((3 : α) - (7 : α) * theta2)) * cosIO

/-- `_calculate_xmcof` -/
def xmcof (bstar coef eeta eo : α) : α :=
  if Num.gt eo ECC_ALL then (-((2 : α) / (3 : α)) * AE) * coef * bstar / eeta else (0 : α)

/-- `_calculate_xlcof` -/
def xlcof (cosIO sinIO : α) : α :=
  let t0 := (1 : α) + cosIO
  let t0 := if Num.lt (Num.abs t0) EPS_COS then Num.sign t0 * EPS_COS else t0
  (0.125 : α) * A3OVK2 * sinIO * ((3 : α) + (5 : α) * cosIO) / t0

/-- `_calculate_near_norm_parameters`: local `temp0` -/
def nnTmp (c1 d2 tsi : α) : α := d2 * tsi * c1 / (3 : α)
def d2 (aodp c1 tsi : α) : α := (4 : α) * aodp * tsi * sq c1
def d3 (aodp c1 d2 get_s4_qoms24_r0 tsi : α) : α := ((17 : α) * aodp + get_s4_qoms24_r0) * nnTmp c1 d2 tsi
def d4 (aodp c1 d2 get_s4_qoms24_r0 tsi : α) : α :=
  (0.5 : α) * nnTmp c1 d2 tsi * aodp * tsi * ((221 : α) * aodp + (31 : α) * get_s4_qoms24_r0) * c1
def t3cof (c1 d2 : α) : α := d2 + (2 : α) * sq c1
def t4cof (c1 d2 d3 : α) : α := (0.25 : α) * ((3 : α) * d3 + c1 * ((12 : α) * d2 + (10 : α) * sq c1))
def t5cof (c1 d2 d3 d4 : α) : α :=
  (0.2 : α) * ((3 : α) * d4 + (12 : α) * c1 * d3 + (6 : α) * sq d2 + (15 : α) * sq c1 * ((2 : α) * d2 + sq c1))

/-- the model's `elements`, assembled from the stages in the order of the source -/
def elements (t : TleNum α) : Elements α :=
  let inclination := deg2rad t.inclination
  let mean_motion := t.mean_motion * (Num.pi * (2 : α) / XMNPDA)
  let original_mean_motion := (oeRecover mean_motion t.excentricity inclination).1
  let semi_major_axis := (oeRecover mean_motion t.excentricity inclination).2
  { eo := t.excentricity, xincl := inclination, xnodeo := deg2rad t.right_ascension,
    omegao := deg2rad t.arg_perigee, xmo := deg2rad t.mean_anomaly, xn_0 := mean_motion, xno := original_mean_motion,
    bstar := t.bstar * AE, sma := semi_major_axis,
    period := Num.pi * (2 : α) / original_mean_motion,
    perigee := (semi_major_axis * ((1 : α) - t.excentricity) / AE - AE) * XKMPER }

/-- the model's `basic`, assembled from the stages in the order of the source -/
def basic (e : Elements α) : Basic α :=
  let cosIO := Num.cos e.xincl
  let sinIO := Num.sin e.xincl
  let theta2 := Num.sq cosIO
  let x3thm1 := (3 : α) * theta2 - (1 : α)
  let x1mth2 := (1 : α) - theta2
  let x7thm1 := (7 : α) * theta2 - (1 : α)
  let betao2 := (1 : α) - sq e.eo
  let betao := Num.sqrt betao2
  let xnodp := (recover e.xn_0 x3thm1 betao betao2).1
  let aodp := (recover e.xn_0 x3thm1 betao betao2).2
  { cosIO := cosIO, sinIO := sinIO, theta2 := theta2, x3thm1 := x3thm1, x1mth2 := x1mth2, x7thm1 := x7thm1,
    betao := betao, betao2 := betao2, xnodp := xnodp, aodp := aodp,
    perigee := (aodp * ((1 : α) - e.eo) - AE) * XKMPER,
    apogee := (aodp * ((1 : α) + e.eo) - AE) * XKMPER,
    period := ((2 : α) * Num.pi * (1440 : α) / XMNPDA) / xnodp }

/-- the model's `coeffs`, assembled from the stages in the order of the source; every stage is applied to the values
    of the symbols the traced stage of the same name reads -/
def coeffs (e : Elements α) (b : Basic α) (mode : Mode) : Params α :=
  let s4 := (s4qoms24 b.perigee).1
  let qoms24 := (s4qoms24 b.perigee).2
  let tsi := tsi b.aodp s4
  let eta := eta b.aodp e.eo s4
  let eeta := eeta e.eo eta
  let coef := coef b.aodp s4 qoms24
  let c2 := c2 b.aodp coef eeta eta tsi b.x3thm1 b.xnodp
  let c1 := e.bstar * c2
  let c4 := c4 b.aodp b.betao2 coef eeta e.eo eta e.omegao tsi b.x1mth2 b.x3thm1 b.xnodp
  let c5 := if mode == .nearNorm then c5 b.aodp b.betao2 coef eeta eta else (0 : α)
  let c3 := if mode == .nearNorm && Num.gt e.eo ECC_ALL then c3 coef e.eo b.sinIO tsi b.xnodp else (0 : α)
  let omgcof := if mode == .nearNorm then e.bstar * c3 * Num.cos e.omegao else (0 : α)
  let xhdot1 := xhdot1 b.aodp b.betao2 b.cosIO b.xnodp
  let d2 := d2 b.aodp c1 tsi
  let d3 := d3 b.aodp c1 d2 s4 tsi
  let d4 := d4 b.aodp c1 d2 s4 tsi
  { mode := mode, eo := e.eo, xincl := e.xincl, xno := e.xno, bstar := e.bstar, omegao := e.omegao, xmo := e.xmo,
    xnodeo := e.xnodeo, xn_0 := e.xn_0, cosIO := b.cosIO, sinIO := b.sinIO, x3thm1 := b.x3thm1, x1mth2 := b.x1mth2,
    x7thm1 := b.x7thm1, xnodp := b.xnodp, aodp := b.aodp, perigee := b.perigee, apogee := b.apogee, period := b.period,
    betao := b.betao, betao2 := b.betao2, s4 := s4, qoms24 := qoms24, tsi := tsi, eta := eta,
    c1 := c1, c2 := c2, c3 := c3, c4 := c4, c5 := c5, omgcof := omgcof,
    xmdot := xmdot b.aodp b.betao b.betao2 b.theta2 b.x3thm1 b.xnodp,
    omgdot := omgdot b.aodp b.betao2 b.theta2 b.xnodp,
    xnodot := xnodot b.aodp b.betao2 b.cosIO b.theta2 xhdot1 b.xnodp, xhdot1 := xhdot1,
    xmcof := xmcof e.bstar coef eeta e.eo, xnodcf := (3.5 : α) * b.betao2 * xhdot1 * c1,
    t2cof := (1.5 : α) * c1, xlcof := xlcof b.cosIO b.sinIO, aycof := (0.25 : α) * A3OVK2 * b.sinIO,
    cosXMO := Num.cos e.xmo, sinXMO := Num.sin e.xmo, delmo := cube ((1 : α) + eta * Num.cos e.xmo),
    d2 := d2, d3 := d3, d4 := d4, t3cof := t3cof c1 d2, t4cof := t4cof c1 d2 d3, t5cof := t5cof c1 d2 d3 d4 }

end
end S

/-! ### the model is the composition of its stages (no computation: unfolding only) -/
theorem elements_eq_stages (t : TleNum ℝ) : Sgp4.elements t = S.elements t := rfl
theorem basic_eq_stages (e : Elements ℝ) : Sgp4.basic e = S.basic e := rfl
theorem coeffs_eq_stages (e : Elements ℝ) (b : Basic ℝ) (mode : Mode) : Sgp4.coeffs e b mode = S.coeffs e b mode := rfl

/-! ## OrbitElements.__init__ -/
section oe
variable (x : ℝ)

theorem oe_excentricity_eq : Gen.KS.oe_excentricity (tle_excentricity := x) = x := by
  simp only [Gen.KS.oe_excentricity] <;> stage_eq
theorem oe_inclination_eq : Gen.KS.oe_inclination (tle_inclination := x) = Num.deg2rad x := by
  simp only [Gen.KS.oe_inclination] <;> stage_eq
theorem oe_right_ascension_eq : Gen.KS.oe_right_ascension (tle_right_ascension := x) = Num.deg2rad x := by
  simp only [Gen.KS.oe_right_ascension] <;> stage_eq
theorem oe_arg_perigee_eq : Gen.KS.oe_arg_perigee (tle_arg_perigee := x) = Num.deg2rad x := by
  simp only [Gen.KS.oe_arg_perigee] <;> stage_eq
theorem oe_mean_anomaly_eq : Gen.KS.oe_mean_anomaly (tle_mean_anomaly := x) = Num.deg2rad x := by
  simp only [Gen.KS.oe_mean_anomaly] <;> stage_eq
theorem oe_mean_motion_eq : Gen.KS.oe_mean_motion (tle_mean_motion := x) = x * (Real.pi * 2 / (XMNPDA : ℝ)) := by
  simp only [Gen.KS.oe_mean_motion, XMNPDA] <;> stage_eq
theorem oe_bstar_eq : Gen.KS.oe_bstar (tle_bstar := x) = x * (AE : ℝ) := by
  simp only [Gen.KS.oe_bstar, AE] <;> stage_eq

/-- `_calculate_mean_motion_and_semi_major_axis` is the model's `oeRecover` of the stored attributes -/
theorem oe_recover_r0_eq (excentricity inclination mean_motion : ℝ) :
    Gen.KS.oe_calculate_mean_motion_and_semi_major_axis_r0 (excentricity := excentricity) (inclination := inclination)
      (mean_motion := mean_motion) = (oeRecover mean_motion excentricity inclination).1 := by
  simp only [Gen.KS.oe_calculate_mean_motion_and_semi_major_axis_r0, oeRecover, CK2, XKE] <;> stage_eq

theorem oe_recover_r1_eq (excentricity inclination mean_motion : ℝ) :
    Gen.KS.oe_calculate_mean_motion_and_semi_major_axis_r1 (excentricity := excentricity) (inclination := inclination)
      (mean_motion := mean_motion) = (oeRecover mean_motion excentricity inclination).2 := by
  simp only [Gen.KS.oe_calculate_mean_motion_and_semi_major_axis_r1, oeRecover, CK2, XKE] <;> stage_eq

theorem oe_original_mean_motion_eq : Gen.KS.oe_original_mean_motion (calculate_mean_motion_and_semi_major_axis_r0 := x) = x := by
  simp only [Gen.KS.oe_original_mean_motion] <;> stage_eq
theorem oe_semi_major_axis_eq : Gen.KS.oe_semi_major_axis (calculate_mean_motion_and_semi_major_axis_r1 := x) = x := by
  simp only [Gen.KS.oe_semi_major_axis] <;> stage_eq
theorem oe_period_eq : Gen.KS.oe_period (original_mean_motion := x) = Real.pi * 2 / x := by
  simp only [Gen.KS.oe_period] <;> stage_eq
theorem oe_perigee_eq (excentricity semi_major_axis : ℝ) :
    Gen.KS.oe_perigee (excentricity := excentricity) (semi_major_axis := semi_major_axis) =
      (semi_major_axis * (1 - excentricity) / (AE : ℝ) - AE) * XKMPER := by
  simp only [Gen.KS.oe_perigee, AE, XKMPER] <;> stage_eq

variable (t : TleNum ℝ)
/-- outcome of `OrbitElements.__init__` -/
def oeLabel : Except InitErr (Elements ℝ) → String
  | .ok _ => "ok"
  | .error .mmRange => "OrbitalError:Mean motion out of range"
  | .error _ => "?"

theorem oe_outcome_eq : Gen.KS.oe_outcome (mean_motion := (elements t).xn_0) = oeLabel (elementsChecked t) := by
  have hx : (elements t).xn_0 = t.mean_motion * (Num.pi * (2 : ℝ) / XMNPDA) := rfl
  simp only [Gen.KS.oe_outcome, elementsChecked, Num.gt, hx]
  split_ifs <;> simp only [*, ↓reduceIte, oeLabel, if_true, if_false, not_false_eq_true, Bool.false_eq_true]

end oe

/-! ## _check_orbital_elements, _SGDP4Base.__init__ -/
section init

/-- the integer codes `SGDP4_NEAR_SIMP`, `SGDP4_NEAR_NORM` of the source -/
def modeCode : Mode → Nat
  | .nearSimp => 2
  | .nearNorm => 3

theorem modeCode_simp : modeCode .nearSimp = Gen.KS.SGDP4_NEAR_SIMP := rfl
theorem modeCode_norm : modeCode .nearNorm = Gen.KS.SGDP4_NEAR_NORM := rfl
theorem deep_code : Gen.KS.SGDP4_DEEP_NORM = 1 := rfl

section aliases
variable (e : Elements ℝ)
theorem init_eo_eq : Gen.KS.init_eo (oe_excentricity := e.eo) = e.eo := by
  simp only [Gen.KS.init_eo] <;> stage_eq
theorem init_xincl_eq : Gen.KS.init_xincl (oe_inclination := e.xincl) = e.xincl := by
  simp only [Gen.KS.init_xincl] <;> stage_eq
theorem init_xno_eq : Gen.KS.init_xno (oe_original_mean_motion := e.xno) = e.xno := by
  simp only [Gen.KS.init_xno] <;> stage_eq
theorem init_bstar_eq : Gen.KS.init_bstar (oe_bstar := e.bstar) = e.bstar := by
  simp only [Gen.KS.init_bstar] <;> stage_eq
theorem init_omegao_eq : Gen.KS.init_omegao (oe_arg_perigee := e.omegao) = e.omegao := by
  simp only [Gen.KS.init_omegao] <;> stage_eq
theorem init_xmo_eq : Gen.KS.init_xmo (oe_mean_anomaly := e.xmo) = e.xmo := by
  simp only [Gen.KS.init_xmo] <;> stage_eq
theorem init_xnodeo_eq : Gen.KS.init_xnodeo (oe_right_ascension := e.xnodeo) = e.xnodeo := by
  simp only [Gen.KS.init_xnodeo] <;> stage_eq
theorem init_xn_0_eq : Gen.KS.init_xn_0 (oe_mean_motion := e.xn_0) = e.xn_0 := by
  simp only [Gen.KS.init_xn_0] <;> stage_eq
end aliases

/-! ### inclination terms and `_calculate_basic_orbit_params`: each traced stage, applied to the model's values of the
attributes it reads, gives the model's value of the attribute it stores -/
section basicp
variable (e : Elements ℝ)

theorem init_cosIO_eq : Gen.KS.init_cosIO (xincl := e.xincl) = (basic e).cosIO := by
  simp only [Gen.KS.init_cosIO, basic] <;> stage_eq
theorem init_sinIO_eq : Gen.KS.init_sinIO (xincl := e.xincl) = (basic e).sinIO := by
  simp only [Gen.KS.init_sinIO, basic] <;> stage_eq
theorem init_theta2_eq : Gen.KS.init_theta2 (cosIO := (basic e).cosIO) = (basic e).theta2 := by
  simp only [Gen.KS.init_theta2, basic] <;> stage_eq
theorem init_x3thm1_eq : Gen.KS.init_x3thm1 (cosIO := (basic e).cosIO) = (basic e).x3thm1 := by
  simp only [Gen.KS.init_x3thm1, basic] <;> stage_eq
theorem init_x1mth2_eq : Gen.KS.init_x1mth2 (cosIO := (basic e).cosIO) = (basic e).x1mth2 := by
  simp only [Gen.KS.init_x1mth2, basic] <;> stage_eq
theorem init_x7thm1_eq : Gen.KS.init_x7thm1 (cosIO := (basic e).cosIO) = (basic e).x7thm1 := by
  simp only [Gen.KS.init_x7thm1, basic] <;> stage_eq
theorem init_betao2_eq : Gen.KS.init_betao2 (eo := e.eo) = (basic e).betao2 := by
  simp only [Gen.KS.init_betao2, basic] <;> stage_eq
theorem init_betao_eq : Gen.KS.init_betao (betao2 := (basic e).betao2) = (basic e).betao := by
  simp only [Gen.KS.init_betao, basic] <;> stage_eq

/-- Kozai -> Brouwer recovery: for all values of the symbols read -/
theorem init_xnodp_stage (betao betao2 x3thm1 xn_0 : ℝ) :
    Gen.KS.init_xnodp (betao := betao) (betao2 := betao2) (x3thm1 := x3thm1) (xn_0 := xn_0) =
      (S.recover xn_0 x3thm1 betao betao2).1 := by
  simp only [Gen.KS.init_xnodp, S.recover, CK2, XKE] <;> stage_eq

theorem init_aodp_stage (betao betao2 x3thm1 xn_0 : ℝ) :
    Gen.KS.init_aodp (betao := betao) (betao2 := betao2) (x3thm1 := x3thm1) (xn_0 := xn_0) =
      (S.recover xn_0 x3thm1 betao betao2).2 := by
  simp only [Gen.KS.init_aodp, S.recover, CK2, XKE] <;> stage_eq

theorem init_xnodp_eq :
    Gen.KS.init_xnodp (betao := (basic e).betao) (betao2 := (basic e).betao2) (x3thm1 := (basic e).x3thm1)
      (xn_0 := e.xn_0) = (basic e).xnodp := by
  rw [init_xnodp_stage]; rfl

theorem init_aodp_eq :
    Gen.KS.init_aodp (betao := (basic e).betao) (betao2 := (basic e).betao2) (x3thm1 := (basic e).x3thm1)
      (xn_0 := e.xn_0) = (basic e).aodp := by
  rw [init_aodp_stage]; rfl

theorem init_perigee_eq : Gen.KS.init_perigee (aodp := (basic e).aodp) (eo := e.eo) = (basic e).perigee := by
  simp only [Gen.KS.init_perigee, basic, AE, XKMPER] <;> stage_eq
theorem init_apogee_eq : Gen.KS.init_apogee (aodp := (basic e).aodp) (eo := e.eo) = (basic e).apogee := by
  simp only [Gen.KS.init_apogee, basic, AE, XKMPER] <;> stage_eq
theorem init_period_eq : Gen.KS.init_period (xnodp := (basic e).xnodp) = (basic e).period := by
  simp only [Gen.KS.init_period, basic, XMNPDA] <;> stage_eq
end basicp

/-! ### `_set_mode`, `_get_s4_qoms24` -/
section modep
variable (perigee period : ℝ)

theorem init_mode_eq :
    Gen.KS.init_mode (perigee := perigee) (period := period) =
      if Num.ge period PERIOD_DEEP then Gen.KS.SGDP4_DEEP_NORM else modeCode (modeOf perigee) := by
  simp only [Gen.KS.init_mode, modeOf, PERIOD_DEEP, PERIGEE_SIMP, Gen.orbital___SGDP4Base__set_mode_L0,
    Gen.orbital___SGDP4Base__set_mode_L1, Num.ge] <;> stage_eq

/-- the thresholds of `_set_mode` as literals (the model takes them from the regenerated constants) -/
theorem init_mode_literal :
    Gen.KS.init_mode (perigee := perigee) (period := period) =
      if (225 : ℝ) ≤ period then 1 else if perigee < (220 : ℝ) then 2 else 3 := by
  simp only [Gen.KS.init_mode]
  kernel_bridge

theorem init_s4_eq : Gen.KS.init_get_s4_qoms24_r0 (perigee := perigee) = (s4qoms24 perigee).1 := by
  simp only [Gen.KS.init_get_s4_qoms24_r0, s4qoms24, PERIGEE_S4, S4_OFFSET, S4_MIN, S4_MIN', Q0, KS, QOMS2T, AE, XKMPER,
    Gen.orbital___SGDP4Base__get_s4_qoms24_L0, Gen.orbital___SGDP4Base__get_s4_qoms24_L1,
    Gen.orbital___SGDP4Base__get_s4_qoms24_L2, Gen.orbital___SGDP4Base__get_s4_qoms24_L3,
    Gen.orbital___SGDP4Base__get_s4_qoms24_L4] <;> stage_eq

theorem init_qoms24_eq : Gen.KS.init_get_s4_qoms24_r1 (perigee := perigee) = (s4qoms24 perigee).2 := by
  simp only [Gen.KS.init_get_s4_qoms24_r1, s4qoms24, PERIGEE_S4, S4_OFFSET, S4_MIN, S4_MIN', Q0, KS, QOMS2T, AE, XKMPER,
    Gen.orbital___SGDP4Base__get_s4_qoms24_L0, Gen.orbital___SGDP4Base__get_s4_qoms24_L1,
    Gen.orbital___SGDP4Base__get_s4_qoms24_L2, Gen.orbital___SGDP4Base__get_s4_qoms24_L3,
    Gen.orbital___SGDP4Base__get_s4_qoms24_L4] <;> stage_eq

/-- the thresholds and offsets of `_get_s4_qoms24` as literals -/
theorem init_s4_literal :
    Gen.KS.init_get_s4_qoms24_r0 (perigee := perigee) =
      if perigee < (156 : ℝ) then (if perigee - 78 < (20 : ℝ) then (20 : ℝ) else perigee - 78) / 6378.135 + 1
      else 1 + 78 / 6378.135 := by
  simp only [Gen.KS.init_get_s4_qoms24_r0, Gen.orbital_KS, Gen.orbital_AE, Gen.orbital_S0, Gen.orbital_XKMPER]
  kernel_bridge
  split_ifs <;> norm_num

theorem init_qoms24_literal :
    Gen.KS.init_get_s4_qoms24_r1 (perigee := perigee) =
      if perigee < (156 : ℝ) then ((120 - (if perigee - 78 < (20 : ℝ) then (20 : ℝ) else perigee - 78)) * (1 / 6378.135)) ^ 4
      else 1.88027916e-9 := by
  simp only [Gen.KS.init_get_s4_qoms24_r1, Gen.orbital_QOMS2T, Gen.orbital_AE, Gen.orbital_XKMPER]
  kernel_bridge
  split_ifs <;> norm_num

end modep

/-! ### the coefficients: every traced stage is the model's stage, for all values of the symbols it reads -/
section coeffsp
variable (aodp betao betao2 bstar c1 c2 c3 coef cosIO cosXMO d2 d3 d4 eeta eo eta omegao s4 qoms24 sinIO theta2 tsi
  x1mth2 x3thm1 xhdot1 xmo xnodp : ℝ)

theorem init_tsi_eq : Gen.KS.init_tsi (aodp := aodp) (get_s4_qoms24_r0 := s4) = S.tsi aodp s4 := by
  simp only [Gen.KS.init_tsi, S.tsi] <;> stage_eq
theorem init_eta_eq : Gen.KS.init_eta (aodp := aodp) (eo := eo) (get_s4_qoms24_r0 := s4) = S.eta aodp eo s4 := by
  simp only [Gen.KS.init_eta, S.eta, S.tsi] <;> stage_eq
theorem init_eeta_eq : Gen.KS.init_eeta (eo := eo) (eta := eta) = S.eeta eo eta := by
  simp only [Gen.KS.init_eeta, S.eeta] <;> stage_eq
theorem init_coef_eq :
    Gen.KS.init_coef (aodp := aodp) (get_s4_qoms24_r0 := s4) (get_s4_qoms24_r1 := qoms24) = S.coef aodp s4 qoms24 := by
  simp only [Gen.KS.init_coef, S.coef, S.tsi] <;> stage_eq

theorem init_c2_eq :
    Gen.KS.init_c2 (aodp := aodp) (coef := coef) (eeta := eeta) (eta := eta) (tsi := tsi) (x3thm1 := x3thm1)
      (xnodp := xnodp) = S.c2 aodp coef eeta eta tsi x3thm1 xnodp := by
  simp only [Gen.KS.init_c2, S.c2, CK2] <;> stage_eq

theorem init_c1_eq : Gen.KS.init_c1 (bstar := bstar) (c2 := c2) = bstar * c2 := by
  simp only [Gen.KS.init_c1] <;> stage_eq

theorem init_c4_eq :
    Gen.KS.init_c4 (aodp := aodp) (betao2 := betao2) (coef := coef) (eeta := eeta) (eo := eo) (eta := eta)
      (omegao := omegao) (tsi := tsi) (x1mth2 := x1mth2) (x3thm1 := x3thm1) (xnodp := xnodp) =
      S.c4 aodp betao2 coef eeta eo eta omegao tsi x1mth2 x3thm1 xnodp := by
  simp only [Gen.KS.init_c4, S.c4, CK2] <;> stage_eq

/-- first stores: `self.c5, self.c3, self.omgcof = 0.0, 0.0, 0.0` -/
theorem init_c5_1_eq : (Gen.KS.init_c5_1 : ℝ) = 0 := by simp only [Gen.KS.init_c5_1] <;> stage_eq
theorem init_c3_1_eq : (Gen.KS.init_c3_1 : ℝ) = 0 := by simp only [Gen.KS.init_c3_1] <;> stage_eq
theorem init_omgcof_1_eq : (Gen.KS.init_omgcof_1 : ℝ) = 0 := by simp only [Gen.KS.init_omgcof_1] <;> stage_eq

theorem init_c5_2_eq :
    Gen.KS.init_c5_2 (aodp := aodp) (betao2 := betao2) (coef := coef) (eeta := eeta) (eta := eta) =
      S.c5 aodp betao2 coef eeta eta := by
  simp only [Gen.KS.init_c5_2, S.c5] <;> stage_eq

theorem init_c3_2_eq :
    Gen.KS.init_c3_2 (coef := coef) (eo := eo) (sinIO := sinIO) (tsi := tsi) (xnodp := xnodp) =
      S.c3 coef eo sinIO tsi xnodp := by
  simp only [Gen.KS.init_c3_2, S.c3, A3OVK2, AE] <;> stage_eq

/-- second store of `omgcof`: `bstar * c3 * cos(omegao)` with the current `c3` (its second store iff `eo > ECC_ALL`) -/
theorem init_omgcof_2_eq (c3_1 c3_2 : ℝ) :
    Gen.KS.init_omgcof_2 (bstar := bstar) (c3_1 := c3_1) (c3_2 := c3_2) (eo := eo) (omegao := omegao) =
      bstar * (if Num.gt eo ECC_ALL then c3_2 else c3_1) * Real.cos omegao := by
  simp only [Gen.KS.init_omgcof_2, Num.gt, ECC_ALL] <;> stage_eq

/-- under which decisions the second stores happen -/
theorem init_c5_2_stored_eq (m : Mode) : Gen.KS.init_c5_2_stored (mode := modeCode m) = (m == .nearNorm) := by
  cases m <;> rfl
theorem init_omgcof_2_stored_eq (m : Mode) : Gen.KS.init_omgcof_2_stored (mode := modeCode m) = (m == .nearNorm) := by
  cases m <;> rfl
theorem init_c3_2_stored_eq (m : Mode) :
    Gen.KS.init_c3_2_stored (eo := eo) (mode := modeCode m) = (m == .nearNorm && Num.gt eo ECC_ALL) := by
  cases m <;> simp only [Gen.KS.init_c3_2_stored, modeCode, Num.gt, ECC_ALL] <;> split_ifs <;> simp_all
theorem init_near_norm_stored_eq (m : Mode) :
    Gen.KS.init_d2_stored (mode := modeCode m) = (m == .nearNorm) ∧
    Gen.KS.init_d3_stored (mode := modeCode m) = (m == .nearNorm) ∧
    Gen.KS.init_d4_stored (mode := modeCode m) = (m == .nearNorm) ∧
    Gen.KS.init_t3cof_stored (mode := modeCode m) = (m == .nearNorm) ∧
    Gen.KS.init_t4cof_stored (mode := modeCode m) = (m == .nearNorm) ∧
    Gen.KS.init_t5cof_stored (mode := modeCode m) = (m == .nearNorm) := by
  cases m <;> exact ⟨rfl, rfl, rfl, rfl, rfl, rfl⟩

theorem init_xmdot_eq :
    Gen.KS.init_xmdot (aodp := aodp) (betao := betao) (betao2 := betao2) (theta2 := theta2) (x3thm1 := x3thm1)
      (xnodp := xnodp) = S.xmdot aodp betao betao2 theta2 x3thm1 xnodp := by
  simp only [Gen.KS.init_xmdot, S.xmdot, S.temp1, S.temp2, S.pinvsq, CK2] <;> stage_eq

theorem init_omgdot_eq :
    Gen.KS.init_omgdot (aodp := aodp) (betao2 := betao2) (theta2 := theta2) (xnodp := xnodp) =
      S.omgdot aodp betao2 theta2 xnodp := by
  simp only [Gen.KS.init_omgdot, S.omgdot, S.temp1, S.temp2, S.temp3, S.pinvsq, CK2, CK4] <;> stage_eq

theorem init_xhdot1_eq :
    Gen.KS.init_xhdot1 (aodp := aodp) (betao2 := betao2) (cosIO := cosIO) (xnodp := xnodp) =
      S.xhdot1 aodp betao2 cosIO xnodp := by
  simp only [Gen.KS.init_xhdot1, S.xhdot1, S.temp1, S.pinvsq, CK2] <;> stage_eq

theorem init_xnodot_eq :
    Gen.KS.init_xnodot (aodp := aodp) (betao2 := betao2) (cosIO := cosIO) (theta2 := theta2) (xhdot1 := xhdot1)
      (xnodp := xnodp) = S.xnodot aodp betao2 cosIO theta2 xhdot1 xnodp := by
  simp only [Gen.KS.init_xnodot, S.xnodot, S.temp1, S.temp2, S.temp3, S.pinvsq, CK2, CK4] <;> stage_eq

theorem init_calculate_xmcof_r_eq :
    Gen.KS.init_calculate_xmcof_r (bstar := bstar) (coef := coef) (eeta := eeta) (eo := eo) =
      S.xmcof bstar coef eeta eo := by
  simp only [Gen.KS.init_calculate_xmcof_r, S.xmcof, Num.gt, ECC_ALL, AE] <;> stage_eq
theorem init_xmcof_eq (r : ℝ) : Gen.KS.init_xmcof (calculate_xmcof_r := r) = r := by
  simp only [Gen.KS.init_xmcof] <;> stage_eq

theorem init_xnodcf_eq :
    Gen.KS.init_xnodcf (betao2 := betao2) (c1 := c1) (xhdot1 := xhdot1) = 3.5 * betao2 * xhdot1 * c1 := by
  simp only [Gen.KS.init_xnodcf] <;> stage_eq
theorem init_t2cof_eq : Gen.KS.init_t2cof (c1 := c1) = 1.5 * c1 := by
  simp only [Gen.KS.init_t2cof] <;> stage_eq

theorem init_calculate_xlcof_r_eq :
    Gen.KS.init_calculate_xlcof_r (cosIO := cosIO) (sinIO := sinIO) = S.xlcof cosIO sinIO := by
  simp only [Gen.KS.init_calculate_xlcof_r, S.xlcof, EPS_COS, A3OVK2] <;> stage_eq
theorem init_xlcof_eq (r : ℝ) : Gen.KS.init_xlcof (calculate_xlcof_r := r) = r := by
  simp only [Gen.KS.init_xlcof] <;> stage_eq

theorem init_aycof_eq : Gen.KS.init_aycof (sinIO := sinIO) = 0.25 * (Gen.orbital_A3OVK2 : ℝ) * sinIO := by
  simp only [Gen.KS.init_aycof] <;> stage_eq
theorem init_cosXMO_eq : Gen.KS.init_cosXMO (xmo := xmo) = Real.cos xmo := by
  simp only [Gen.KS.init_cosXMO] <;> stage_eq
theorem init_sinXMO_eq : Gen.KS.init_sinXMO (xmo := xmo) = Real.sin xmo := by
  simp only [Gen.KS.init_sinXMO] <;> stage_eq
theorem init_delmo_eq : Gen.KS.init_delmo (cosXMO := cosXMO) (eta := eta) = (1 + eta * cosXMO) ^ 3 := by
  simp only [Gen.KS.init_delmo] <;> stage_eq

theorem init_d2_eq : Gen.KS.init_d2 (aodp := aodp) (c1 := c1) (tsi := tsi) = S.d2 aodp c1 tsi := by
  simp only [Gen.KS.init_d2, S.d2] <;> stage_eq
theorem init_d3_eq :
    Gen.KS.init_d3 (aodp := aodp) (c1 := c1) (d2 := d2) (get_s4_qoms24_r0 := s4) (tsi := tsi) = S.d3 aodp c1 d2 s4 tsi := by
  simp only [Gen.KS.init_d3, S.d3, S.nnTmp] <;> stage_eq
theorem init_d4_eq :
    Gen.KS.init_d4 (aodp := aodp) (c1 := c1) (d2 := d2) (get_s4_qoms24_r0 := s4) (tsi := tsi) = S.d4 aodp c1 d2 s4 tsi := by
  simp only [Gen.KS.init_d4, S.d4, S.nnTmp] <;> stage_eq
theorem init_t3cof_eq : Gen.KS.init_t3cof (c1 := c1) (d2 := d2) = S.t3cof c1 d2 := by
  simp only [Gen.KS.init_t3cof, S.t3cof] <;> stage_eq
theorem init_t4cof_eq : Gen.KS.init_t4cof (c1 := c1) (d2 := d2) (d3 := d3) = S.t4cof c1 d2 d3 := by
  simp only [Gen.KS.init_t4cof, S.t4cof] <;> stage_eq
theorem init_t5cof_eq : Gen.KS.init_t5cof (c1 := c1) (d2 := d2) (d3 := d3) (d4 := d4) = S.t5cof c1 d2 d3 d4 := by
  simp only [Gen.KS.init_t5cof, S.t5cof] <;> stage_eq

end coeffsp

/-! ### the attributes stored twice: their value when `__init__` returns is the model's field (cf. `S.coeffs`) -/
section finals
variable (m : Mode) (aodp betao2 bstar coef eeta eo eta omegao sinIO tsi xnodp : ℝ)

theorem init_c5_final :
    (if Gen.KS.init_c5_2_stored (mode := modeCode m) then
        Gen.KS.init_c5_2 (aodp := aodp) (betao2 := betao2) (coef := coef) (eeta := eeta) (eta := eta)
      else Gen.KS.init_c5_1) =
      if m == .nearNorm then S.c5 aodp betao2 coef eeta eta else (0 : ℝ) := by
  rw [init_c5_2_stored_eq, init_c5_2_eq, init_c5_1_eq]

theorem init_c3_final :
    (if Gen.KS.init_c3_2_stored (eo := eo) (mode := modeCode m) then
        Gen.KS.init_c3_2 (coef := coef) (eo := eo) (sinIO := sinIO) (tsi := tsi) (xnodp := xnodp)
      else Gen.KS.init_c3_1) =
      if m == .nearNorm && Num.gt eo ECC_ALL then S.c3 coef eo sinIO tsi xnodp else (0 : ℝ) := by
  rw [init_c3_2_stored_eq, init_c3_2_eq, init_c3_1_eq]

theorem init_omgcof_final (c3_2 : ℝ) :
    (if Gen.KS.init_omgcof_2_stored (mode := modeCode m) then
        Gen.KS.init_omgcof_2 (bstar := bstar) (c3_1 := Gen.KS.init_c3_1) (c3_2 := c3_2) (eo := eo) (omegao := omegao)
      else Gen.KS.init_omgcof_1) =
      if m == .nearNorm then
        bstar * (if m == .nearNorm && Num.gt eo ECC_ALL then c3_2 else (0 : ℝ)) * Real.cos omegao
      else (0 : ℝ) := by
  rw [init_omgcof_2_stored_eq, init_omgcof_2_eq, init_c3_1_eq, init_omgcof_1_eq]
  cases m <;> simp

end finals

/-! ### the outcome of `_SGDP4Base.__init__` (with `_check_orbital_elements`): the model's guards in the same order -/
def initLabel : Except InitErr (Params ℝ) → String
  | .ok _ => "ok"
  | .error .eccRange => "OrbitalError:Eccentricity out of range"
  | .error .mmRange => "OrbitalError:Mean motion out of range"
  | .error .inclRange => "OrbitalError:Inclination out of range"
  | .error .deepSpace => "NotImplementedError:Deep space calculations not supported"

/-- `_check_orbital_elements` alone: the outcome for a mode that does not raise -/
theorem init_outcome_eq (e : Elements ℝ) :
    Gen.KS.init_outcome (eo := e.eo) (oe_excentricity := e.eo) (oe_inclination := e.xincl)
      (oe_original_mean_motion := e.xno)
      (mode := Gen.KS.init_mode (perigee := (basic e).perigee) (period := (basic e).period)) = initLabel (init e) := by
  rw [init_mode_eq]
  simp only [Gen.KS.init_outcome, init, checkElements, ECC_LIMIT_HIGH, MM_LOW, MM_HIGH, Num.ge, Num.gt,
    Gen.orbital___check_orbital_elements_L1, Gen.orbital___check_orbital_elements_L3, XMNPDA, Gen.orbital_XMNPDA,
    Gen.orbital_ECC_LIMIT_HIGH, Gen.orbital_ECC_EPS, PERIOD_DEEP, Gen.orbital___SGDP4Base__set_mode_L0, Gen.KS.SGDP4_DEEP_NORM]
  kernel_bridge
  norm_num
  generalize coeffs e (basic e) (modeOf (basic e).perigee) = P
  generalize modeOf (basic e).perigee = m
  generalize (basic e).period = period
  have hm : modeCode m ≠ 1 := by cases m <;> decide
  rcases le_or_gt e.eo 0 with h1 | h1
  · simp only [h1.not_gt, h1, initLabel, if_true, if_false, true_or, or_true, or_false, false_or]
  rcases le_or_gt (999999 / 1000000) e.eo with h2 | h2
  · simp only [h1, h1.not_ge, h2.not_gt, h2, initLabel, if_true, if_false, true_or, or_true, or_false, false_or]
  rcases le_or_gt e.xno (7 / 1000 * Real.pi / 1440) with h3 | h3
  · simp only [h1, h1.not_ge, h2, h2.not_ge, h3.not_gt, h3, initLabel, if_true, if_false, true_or, or_true, or_false, false_or]
  rcases le_or_gt (36 * Real.pi / 1440) e.xno with h4 | h4
  · simp only [h1, h1.not_ge, h2, h2.not_ge, h3, h3.not_ge, h4.not_gt, h4, initLabel, if_true, if_false, true_or, or_true, or_false, false_or]
  rcases le_or_gt e.xincl 0 with h5 | h5
  · simp only [h1, h1.not_ge, h2, h2.not_ge, h3, h3.not_ge, h4, h4.not_ge, h5.not_gt, h5, initLabel, if_true, if_false, true_or, or_true, or_false, false_or]
  rcases le_or_gt Real.pi e.xincl with h6 | h6
  · simp only [h1, h1.not_ge, h2, h2.not_ge, h3, h3.not_ge, h4, h4.not_ge, h5, h5.not_ge, h6.not_gt, h6, initLabel, if_true, if_false, true_or, or_true, or_false, false_or]
  have h7 : ¬ e.eo < 0 := not_lt.mpr h1.le
  simp only [h1, h1.not_ge, h2, h2.not_ge, h3, h3.not_ge, h4, h4.not_ge, h5, h5.not_ge, h6, h6.not_ge, h7, if_true,
    if_false, or_self]
  rcases le_or_gt 225 period with h8 | h8
  · have h9 : ¬ period < 225 := h8.not_gt
    simp only [h8, h9, initLabel, if_true, if_false, Nat.reduceEqDiff, false_imp_iff, show ((1 : Nat) = 3) = False from by decide]
  · have h9 : ¬ (225 : ℝ) ≤ period := h8.not_ge
    simp only [h9, if_false, h8, forall_true_left, hm, initLabel]
    split_ifs <;> rfl

end init
end PV.Equiv.Sgp4Init
