/-
  PV.Equiv.TranslatedCrossing — tie T-D for C11: the translation of `Orbital.get_equatorial_crossing_time` (the two orbit
  numbers, the gate `int(n_end) - int(n_start) == 0`, the offset `int(n_end)` (+ 0.5 for the descending node), the
  bisection of the closure `_nprime` over the microsecond ticks, ValueError -> None, the conversion of the root to a
  datetime, `utc2local`) against the shape of the model `PV.OrbitNum.crossingTime` / `crossingOffset`.

  The closure `_nprime(time_f) = self.get_orbit_number(np.datetime64(int(time_f), "us"), as_float=True) - offset` is
  TRANSLATED (closure conversion: the captured `offset`, `time_unit` and `self` are parameters) and handed to the parameter
  `optimize.bisect`.  `get_orbit_number` works on the cached node of the object; the theorems take as hypothesis that its
  answer does not depend on the cache (`Pure`: what `get_orbit_number_float_answer` of PV.Equiv.TranslatedOrbitNum proves
  for every cache state a history of calls can leave) and say nothing about the cache afterwards.
-/
import PV.Equiv.TranslatedOrbitNum
import PV.Model.OrbitNum
set_option linter.unusedVariables false
set_option linter.unusedSectionVars false
set_option linter.unusedSimpArgs false

namespace PV.Equiv.TranslatedCrossing
open PV PV.Py PV.Gen.T PV.Equiv.TL PV.Equiv.TranslatedOrbitNum

variable {F T TD UTC Vec : Type} [FloatOps F] [FloatArith F] [TimeOps T TD] [Inhabited F] [Inhabited TD]

/-- on every cache state of the invariant `I` (what a history of calls can leave), `get_orbit_number(t, as_float=True)`
    answers `n t` (it does not raise) and leaves a cache state of the invariant -/
def Pure (I : Orbital.Heap T TD → Prop) (gon : Int → MS (Orbital.Heap T TD) F) (n : Int → F) : Prop :=
  ∀ t h, I h → ∃ h', I h' ∧ gon t h = (Except.ok (n t), h')

/-- the value of a call of the closure on a cache state -/
def valOf (r : Except Exc F × Orbital.Heap T TD) : F :=
  match r.1 with
  | .ok v => v
  | .error _ => default

/-- `optimize.bisect(f, a, b, rtol)` as an abstract root finder `bisF g a b = some x` / `none` (ValueError) on the values
    of `f` (the model's `bis`) -/
def bisOf (bisF : (F → F) → F → F → Option F) (ofTick : Int → F) (f : F → MS (Orbital.Heap T TD) F) (a b : Int) (rtol : F) :
    MS (Orbital.Heap T TD) F := fun h =>
  (match bisF (fun x => valOf (f x h)) (ofTick a) (ofTick b) with
   | some x => Except.ok x
   | none => Except.error Exc.ValueError, h)

/-- the root the bisection is asked for: `none` when the gate closes or the bisection raises ValueError -/
def crossRoot (n : Int → F) (ofTick : Int → F) (toTick : F → Int) (bisF : (F → F) → F → F → Option F)
    (tstart tend : Int) (descending : Bool) : Option F :=
  if FloatArith.toInt (n tend) - FloatArith.toInt (n tstart) == 0 then none
  else if descending then
    bisF (fun x => FloatOps.sub (n (toTick x))
      (FloatArith.add (FloatOps.ofInt (FloatArith.toInt (n tend))) (FloatArith.lit 5 (-1)))) (ofTick tstart) (ofTick tend)
  else
    bisF (fun x => FloatOps.sub (n (toTick x)) (FloatOps.ofInt (FloatArith.toInt (n tend)))) (ofTick tstart) (ofTick tend)

/-- what is returned for a root: the datetime of its tick, moved to local time when asked -/
def finish (ah : UTC → F → M UTC) (gl : UTC → M (F × F × F)) (dot : F → Str → M UTC) (self : Orbital.Self F T) (lt : Bool) :
    Option F → M (Option UTC)
  | none => Except.ok none
  | some x => dot x ['u', 's'] >>= fun u =>
      if lt then Orbital.utc2local (add_hours := ah) (get_lonlatalt := gl) self u >>= fun v => Except.ok (some v)
      else Except.ok (some u)

variable (days : TD → F) (lastAn : T → M T) (pos : T → M (Vec × Vec)) (toT : Int → M T) (get : Vec → Int → F)
  (ah : UTC → F → M UTC) (gl : UTC → M (F × F × F)) (dot : F → Str → M UTC) (toTick : F → Int) (ofTick : Int → F)
  (bisF : (F → F) → F → F → Option F) (self : Orbital.Self F T) (n : Int → F) (I : Orbital.Heap T TD → Prop)

/-- the closure on any cache state: the orbit number of the tick, minus the offset -/
theorem nprime_int_val
    (hp : Pure I (fun t => Orbital.get_orbit_number__as_float_True (astronomy_days := days) (get_last_an_time := lastAn)
      (get_position := pos) (np_datetime64 := toT) (vec_get := get) self t false) n)
    (off : Int) (tu : Str) (x : F) (h : Orbital.Heap T TD) (hI : I h) :
    valOf (Orbital.crossing_nprime_int (astronomy_days := days) (datetime64_of_ticks := fun x _ => Except.ok (toTick x))
      (get_last_an_time := lastAn) (get_position := pos) (np_datetime64 := toT) (vec_get := get) self off tu x h) =
      FloatOps.sub (n (toTick x)) (FloatOps.ofInt off) := by
  unfold Orbital.crossing_nprime_int
  obtain ⟨h', _, e⟩ := hp (toTick x) h hI
  simp only [] at e
  simp only [ms_bind, ms_lift, e, ms_pure]
  rfl

theorem nprime_float_val
    (hp : Pure I (fun t => Orbital.get_orbit_number__as_float_True (astronomy_days := days) (get_last_an_time := lastAn)
      (get_position := pos) (np_datetime64 := toT) (vec_get := get) self t false) n)
    (off : F) (tu : Str) (x : F) (h : Orbital.Heap T TD) (hI : I h) :
    valOf (Orbital.crossing_nprime_float (astronomy_days := days) (datetime64_of_ticks := fun x _ => Except.ok (toTick x))
      (get_last_an_time := lastAn) (get_position := pos) (np_datetime64 := toT) (vec_get := get) self off tu x h) =
      FloatOps.sub (n (toTick x)) off := by
  unfold Orbital.crossing_nprime_float
  obtain ⟨h', _, e⟩ := hp (toTick x) h hI
  simp only [] at e
  simp only [ms_bind, ms_lift, e, ms_pure]
  rfl


/-- **C11 tie (`get_equatorial_crossing_time`, node="ascending").**  With an orbit number that does not depend on the cache:
    the call returns `finish (crossRoot ...)` — None when `int(n_end) - int(n_start) == 0` or the bisection raises
    ValueError, else the datetime of the root of `n(t) - offset` the bisection finds between the ticks of `tstart` and
    `tend` — for every cache state it starts from. -/
theorem crossing_ascending_eq
    (hp : Pure I (fun t => Orbital.get_orbit_number__as_float_True (astronomy_days := days) (get_last_an_time := lastAn)
      (get_position := pos) (np_datetime64 := toT) (vec_get := get) self t false) n)
    (tstart tend : Int) (lt : Bool) (rtol : F) (h : Orbital.Heap T TD) (hI : I h) :
    ∃ h', I h' ∧ Orbital.get_equatorial_crossing_time__node_ascending (add_hours := ah) (astronomy_days := days)
        (bisect_ticks := bisOf bisF ofTick) (datetime64_of_ticks := fun x _ => Except.ok (toTick x)) (datetime_of_ticks := dot)
        (get_last_an_time := lastAn) (get_lonlatalt := gl) (get_position := pos) (np_datetime64 := toT) (vec_get := get)
        self tstart tend lt rtol h =
      (finish ah gl dot self lt (crossRoot n ofTick toTick bisF tstart tend false), h') := by
  unfold Orbital.get_equatorial_crossing_time__node_ascending
  obtain ⟨h1, hI1, e1⟩ := hp tstart h hI
  obtain ⟨h2, hI2, e2⟩ := hp tend h1 hI1
  simp only [] at e1 e2
  refine ⟨h2, hI2, ?_⟩
  simp only [ms_bind, e1, e2, crossRoot]
  by_cases hg : (FloatArith.toInt (n tend) - FloatArith.toInt (n tstart) == 0) = true
  · simp only [hg, if_true, finish]; rfl
  · have hv : (fun x => valOf (Orbital.crossing_nprime_int (astronomy_days := days)
        (datetime64_of_ticks := fun x _ => Except.ok (toTick x)) (get_last_an_time := lastAn) (get_position := pos)
        (np_datetime64 := toT) (vec_get := get) self (FloatArith.toInt (n tend)) ['u', 's'] x h2)) =
        fun x => FloatOps.sub (n (toTick x)) (FloatOps.ofInt (FloatArith.toInt (n tend))) := by
      funext x
      exact nprime_int_val days lastAn pos toT get toTick self n I hp _ _ x h2 hI2
    simp only [hg, Bool.false_eq_true, if_false, if_true, ite_self, ms_tryCatch, ms_bind, bisOf, hv]
    cases hb : bisF _ (ofTick tstart) (ofTick tend) with
    | none => simp only [finish]; rfl
    | some x =>
      have hr : ∀ (hh : Orbital.Heap T TD), (ExceptT.run ((pure () : StateT F (ExceptT (Option UTC) (MS (Orbital.Heap T TD))) Unit) x) hh) =
          (Except.ok (Except.ok ((), x)), hh) := fun _ => rfl
      simp only [finish, hr, EarlyReturn.runK, ms_bind, ms_lift]
      cases hd : dot x ['u', 's'] with
      | error e => rfl
      | ok u =>
        cases lt
        · rfl
        · simp only [if_true, ok_bind, ms_bind, ms_lift]
          cases hu : Orbital.utc2local (add_hours := ah) (get_lonlatalt := gl) self u <;> rfl

/-- **C11 tie (`get_equatorial_crossing_time`, node="descending").**  With an orbit number that does not depend on the cache:
    the call returns `finish (crossRoot ...)` — None when `int(n_end) - int(n_start) == 0` or the bisection raises
    ValueError, else the datetime of the root of `n(t) - offset` the bisection finds between the ticks of `tstart` and
    `tend` — for every cache state it starts from. -/
theorem crossing_descending_eq
    (hp : Pure I (fun t => Orbital.get_orbit_number__as_float_True (astronomy_days := days) (get_last_an_time := lastAn)
      (get_position := pos) (np_datetime64 := toT) (vec_get := get) self t false) n)
    (tstart tend : Int) (lt : Bool) (rtol : F) (h : Orbital.Heap T TD) (hI : I h) :
    ∃ h', I h' ∧ Orbital.get_equatorial_crossing_time__node_descending (add_hours := ah) (astronomy_days := days)
        (bisect_ticks := bisOf bisF ofTick) (datetime64_of_ticks := fun x _ => Except.ok (toTick x)) (datetime_of_ticks := dot)
        (get_last_an_time := lastAn) (get_lonlatalt := gl) (get_position := pos) (np_datetime64 := toT) (vec_get := get)
        self tstart tend lt rtol h =
      (finish ah gl dot self lt (crossRoot n ofTick toTick bisF tstart tend true), h') := by
  unfold Orbital.get_equatorial_crossing_time__node_descending
  obtain ⟨h1, hI1, e1⟩ := hp tstart h hI
  obtain ⟨h2, hI2, e2⟩ := hp tend h1 hI1
  simp only [] at e1 e2
  refine ⟨h2, hI2, ?_⟩
  simp only [ms_bind, e1, e2, crossRoot]
  by_cases hg : (FloatArith.toInt (n tend) - FloatArith.toInt (n tstart) == 0) = true
  · simp only [hg, if_true, finish]; rfl
  · have hv : (fun x => valOf (Orbital.crossing_nprime_float (astronomy_days := days)
        (datetime64_of_ticks := fun x _ => Except.ok (toTick x)) (get_last_an_time := lastAn) (get_position := pos)
        (np_datetime64 := toT) (vec_get := get) self (FloatArith.add (FloatOps.ofInt (FloatArith.toInt (n tend))) (FloatArith.lit 5 (-1))) ['u', 's'] x h2)) =
        fun x => FloatOps.sub (n (toTick x)) (FloatArith.add (FloatOps.ofInt (FloatArith.toInt (n tend))) (FloatArith.lit 5 (-1))) := by
      funext x
      exact nprime_float_val days lastAn pos toT get toTick self n I hp _ _ x h2 hI2
    simp only [hg, Bool.false_eq_true, if_false, if_true, ite_self, ms_tryCatch, ms_bind, bisOf, hv]
    cases hb : bisF _ (ofTick tstart) (ofTick tend) with
    | none => simp only [finish]; rfl
    | some x =>
      have hr : ∀ (hh : Orbital.Heap T TD), (ExceptT.run ((pure () : StateT F (ExceptT (Option UTC) (MS (Orbital.Heap T TD))) Unit) x) hh) =
          (Except.ok (Except.ok ((), x)), hh) := fun _ => rfl
      simp only [finish, hr, EarlyReturn.runK, ms_bind, ms_lift]
      cases hd : dot x ['u', 's'] with
      | error e => rfl
      | ok u =>
        cases lt
        · rfl
        · simp only [if_true, ok_bind, ms_bind, ms_lift]
          cases hu : Orbital.utc2local (add_hours := ah) (get_lonlatalt := gl) self u <;> rfl

/-! ### the hypothesis `Pure`, from the tie of `get_orbit_number` with the cache model -/
section warm
open PV.Cache
variable (k : Kernels F T TD Int Vec)

/-- the trace only grows: a call on a cache with the trace `tr` does what it does on the empty trace, with its loads and
    stores appended to `tr` -/
theorem gon_frame (self : Orbital.Self F T) (t : Option T) (p : Option TD) (tr : List (Orbital.Ev T TD)) (utc : Int)
    (tbus : Bool) :
    Orbital.get_orbit_number__as_float_True (astronomy_days := k.days)
        (get_last_an_time := fun t => Except.ok (k.lastAn t)) (get_position := fun t => Except.ok (k.pos t, k.vel t))
        (np_datetime64 := fun a => Except.ok (k.toT a)) (vec_get := k.get) self utc tbus ⟨t, p, tr⟩ =
      ((Orbital.get_orbit_number__as_float_True (astronomy_days := k.days)
        (get_last_an_time := fun t => Except.ok (k.lastAn t)) (get_position := fun t => Except.ok (k.pos t, k.vel t))
        (np_datetime64 := fun a => Except.ok (k.toT a)) (vec_get := k.get) self utc tbus ⟨t, p, []⟩).1,
       ⟨(Orbital.get_orbit_number__as_float_True (astronomy_days := k.days)
        (get_last_an_time := fun t => Except.ok (k.lastAn t)) (get_position := fun t => Except.ok (k.pos t, k.vel t))
        (np_datetime64 := fun a => Except.ok (k.toT a)) (vec_get := k.get) self utc tbus ⟨t, p, []⟩).2.an_time,
        (Orbital.get_orbit_number__as_float_True (astronomy_days := k.days)
        (get_last_an_time := fun t => Except.ok (k.lastAn t)) (get_position := fun t => Except.ok (k.pos t, k.vel t))
        (np_datetime64 := fun a => Except.ok (k.toT a)) (vec_get := k.get) self utc tbus ⟨t, p, []⟩).2.an_period,
        (Orbital.get_orbit_number__as_float_True (astronomy_days := k.days)
        (get_last_an_time := fun t => Except.ok (k.lastAn t)) (get_position := fun t => Except.ok (k.pos t, k.vel t))
        (np_datetime64 := fun a => Except.ok (k.toT a)) (vec_get := k.get) self utc tbus ⟨t, p, []⟩).2.trace.foldl
          (fun acc e => acc ++ [e]) tr⟩) := by
  unfold Orbital.get_orbit_number__as_float_True
  simp only [ms_lift_ok_bind]
  generalize FloatArith.gt (FloatArith.abs (k.get (k.pos self.tle_epoch) 2)) (FloatOps.ofInt 1) = c
  generalize FloatArith.gt (k.get (k.vel self.tle_epoch) 2) (FloatOps.ofInt 0) = d
  cases t <;> cases p <;> cases tbus <;> cases c <;> cases d <;> kernel_rfl

/-- `get_orbit_number(u, as_float=True)` on the kernels `k` -/
def gonK (self : Orbital.Self F T) (u : Int) : MS (Orbital.Heap T TD) F :=
  Orbital.get_orbit_number__as_float_True (astronomy_days := k.days)
    (get_last_an_time := fun t => Except.ok (k.lastAn t)) (get_position := fun t => Except.ok (k.pos t, k.vel t))
    (np_datetime64 := fun a => Except.ok (k.toT a)) (vec_get := k.get) self u false

theorem gonK_frame (self : Orbital.Self F T) (t : Option T) (p : Option TD) (tr : List (Orbital.Ev T TD)) (u : Int) :
    gonK k self u ⟨t, p, tr⟩ = ((gonK k self u ⟨t, p, []⟩).1,
      ⟨(gonK k self u ⟨t, p, []⟩).2.an_time, (gonK k self u ⟨t, p, []⟩).2.an_period,
       (gonK k self u ⟨t, p, []⟩).2.trace.foldl (fun acc e => acc ++ [e]) tr⟩) :=
  gon_frame k self t p tr u false

theorem gonK_empty (self : Orbital.Self F T) (t : Option T) (p : Option TD) (u : Int) :
    gonK k self u ⟨t, p, []⟩ = modelCall (semFloat k self) ⟨t, p⟩ (u, false) :=
  get_orbit_number_float_eq k self ⟨t, p⟩ u false

/-- the invariant: the two slots are empty or canonical -/
def SlotsInv (self : Orbital.Self F T) (h : Orbital.Heap T TD) : Prop :=
  PV.C18.SlotsOK (semFloat k self) () ⟨h.an_time, h.an_period⟩

/-- **warm cache ⇒ pure.**  On slots that are empty or canonical — with any trace — `get_orbit_number(t, as_float=True)`
    returns the closed form `sem.answer` and leaves slots that are empty or canonical -/
theorem gon_pure (self : Orbital.Self F T) :
    Pure (SlotsInv k self) (gonK k self) (fun t => (semFloat k self).answer () (Kind.orbit, (t, false))) := by
  intro t h hI
  obtain ⟨ht, hp, tr⟩ := h
  have hcall := PV.C18.callOn_ok (semFloat k self) () ⟨ht, hp⟩ (Kind.orbit, (t, false)) hI
  have hmc := modelCall_callOn (semFloat k self) ⟨ht, hp⟩ (t, false)
  rw [gonK_frame, gonK_empty]
  generalize modelCall (semFloat k self) ⟨ht, hp⟩ (t, false) = mc at hmc
  generalize callOn (semFloat k self) () ⟨ht, hp⟩ (Kind.orbit, (t, false)) = co at hmc hcall
  obtain ⟨r, hh⟩ := mc
  obtain ⟨sh', o⟩ := co
  obtain ⟨hs, hr⟩ := hmc
  obtain ⟨ho, hok⟩ := hcall
  simp only at hs hr ho hok
  subst ho
  simp only at hr
  subst hr
  refine ⟨_, ?_, rfl⟩
  unfold SlotsInv
  simp only
  have h1 := congrArg Prod.fst hs
  have h2 := congrArg Prod.snd hs
  simp only at h1 h2
  rw [h1, h2]
  exact hok

/-- **C11 tie on the kernels, ascending node.**  On an object whose two slots are empty or canonical (with any trace):
    no purity hypothesis is left — it is `gon_pure` -/
theorem crossing_ascending_kernels (ah : UTC → F → M UTC) (gl : UTC → M (F × F × F)) (dot : F → Str → M UTC)
    (toTick : F → Int) (ofTick : Int → F) (bisF : (F → F) → F → F → Option F) (self : Orbital.Self F T)
    (tstart tend : Int) (lt : Bool) (rtol : F) (h : Orbital.Heap T TD) (hI : SlotsInv k self h) :
    ∃ h', SlotsInv k self h' ∧ Orbital.get_equatorial_crossing_time__node_ascending (add_hours := ah) (astronomy_days := k.days)
        (bisect_ticks := bisOf bisF ofTick) (datetime64_of_ticks := fun x _ => Except.ok (toTick x)) (datetime_of_ticks := dot)
        (get_last_an_time := fun t => Except.ok (k.lastAn t)) (get_lonlatalt := gl)
        (get_position := fun t => Except.ok (k.pos t, k.vel t)) (np_datetime64 := fun a => Except.ok (k.toT a)) (vec_get := k.get)
        self tstart tend lt rtol h =
      (finish ah gl dot self lt (crossRoot (fun t => (semFloat k self).answer () (Kind.orbit, (t, false))) ofTick toTick bisF
        tstart tend false), h') :=
  crossing_ascending_eq k.days _ _ _ k.get ah gl dot toTick ofTick bisF self _ (SlotsInv k self) (gon_pure k self)
    tstart tend lt rtol h hI

theorem crossing_descending_kernels (ah : UTC → F → M UTC) (gl : UTC → M (F × F × F)) (dot : F → Str → M UTC)
    (toTick : F → Int) (ofTick : Int → F) (bisF : (F → F) → F → F → Option F) (self : Orbital.Self F T)
    (tstart tend : Int) (lt : Bool) (rtol : F) (h : Orbital.Heap T TD) (hI : SlotsInv k self h) :
    ∃ h', SlotsInv k self h' ∧ Orbital.get_equatorial_crossing_time__node_descending (add_hours := ah) (astronomy_days := k.days)
        (bisect_ticks := bisOf bisF ofTick) (datetime64_of_ticks := fun x _ => Except.ok (toTick x)) (datetime_of_ticks := dot)
        (get_last_an_time := fun t => Except.ok (k.lastAn t)) (get_lonlatalt := gl)
        (get_position := fun t => Except.ok (k.pos t, k.vel t)) (np_datetime64 := fun a => Except.ok (k.toT a)) (vec_get := k.get)
        self tstart tend lt rtol h =
      (finish ah gl dot self lt (crossRoot (fun t => (semFloat k self).answer () (Kind.orbit, (t, false))) ofTick toTick bisF
        tstart tend true), h') :=
  crossing_descending_eq k.days _ _ _ k.get ah gl dot toTick ofTick bisF self _ (SlotsInv k self) (gon_pure k self)
    tstart tend lt rtol h hI

end warm

/-! ### the model `PV.OrbitNum.crossingTime` -/
section model
variable {α : Type} [Num α] [FloatOps α] [FloatArith α]

/-- **the root is the model's.**  With the float operations of the translation read in the model's `Num α` (`hsub`, `hadd`,
    `hlit`), `int()` the truncation the model calls `pyInt` (`hint`) and the integer gate the model's float gate
    (`hgate`): the tick of the root `get_equatorial_crossing_time` converts is `PV.OrbitNum.crossingTime`, the function
    the C11 theorems are about -/
theorem crossRoot_crossingTime (n : Int → α) (ofTick : Int → α) (toTick : α → Int) (bisF : (α → α) → α → α → Option α)
    (tstart tend : Int) (desc : Bool)
    (hsub : ∀ a b : α, FloatOps.sub a b = a - b) (hadd : ∀ a b : α, FloatArith.add a b = a + b)
    (hlit : (FloatArith.lit 5 (-1) : α) = (0.5 : α))
    (hint : ∀ x : α, FloatOps.ofInt (FloatArith.toInt x) = OrbitNum.pyInt x)
    (hgate : ∀ x y : α, (FloatArith.toInt x - FloatArith.toInt y == 0) = OrbitNum.feq (OrbitNum.pyInt x - OrbitNum.pyInt y) 0) :
    (crossRoot n ofTick toTick bisF tstart tend desc).map toTick =
      OrbitNum.crossingTime n ofTick toTick bisF tstart tend desc := by
  unfold crossRoot OrbitNum.crossingTime OrbitNum.crossingOffset
  rw [hgate]
  cases hf : OrbitNum.feq (OrbitNum.pyInt (n tend) - OrbitNum.pyInt (n tstart)) 0
  · cases desc
    · simp only [Bool.false_eq_true, if_false, hsub, hint]
      cases bisF _ (ofTick tstart) (ofTick tend) <;> rfl
    · simp only [Bool.false_eq_true, if_false, if_true, hsub, hadd, hlit, hint]
      cases bisF _ (ofTick tstart) (ofTick tend) <;> rfl
  · simp

end model

end PV.Equiv.TranslatedCrossing
