/-
  PV.Equiv.TranslatedCrossing — tie T-D for C11: the translation of `Orbital.get_equatorial_crossing_time` (the two orbit
  numbers, the gate `int(n_end) - int(n_start) == 0`, the offset `int(n_end)` (+ 0.5 for the descending node), the
  bisection of the closure `_nprime` over the microsecond ticks, ValueError -> None, the conversion of the root to a
  datetime, `utc2local`) against the shape of the model `PV.OrbitNum.crossingTime` / `crossingOffset`.

  The closure `_nprime(time_f) = self.get_orbit_number(np.datetime64(int(time_f), "us"), as_float=True) - offset` is
  TRANSLATED (closure conversion: the captured `offset`, `time_unit` and `self` are parameters) and handed to the parameter
  `optimize.bisect`.  `get_orbit_number` works on the cached node of the object; the theorems take as hypothesis that its
  answer does not depend on the cache (`Pure`: what `get_orbit_number_float_answer` of PV.Equiv.TranslatedOrbitNum proves
  for every cache state a history of calls can leave) and say nothing about the cache afterwards.
-/
import PV.Equiv.TranslatedOrbitNum
import PV.Model.OrbitNum
set_option linter.unusedVariables false
set_option linter.unusedSectionVars false
set_option linter.unusedSimpArgs false

namespace PV.Equiv.TranslatedCrossing
open PV PV.Py PV.Gen.T PV.Equiv.TL PV.Equiv.TranslatedOrbitNum

variable {F T TD UTC Vec : Type} [FloatOps F] [FloatArith F] [TimeOps T TD] [Inhabited F] [Inhabited TD]

/-- `get_orbit_number(t, as_float=True)` answers `n t` whatever the cache holds (and does not raise) -/
def Pure (gon : Int → MS (Orbital.Heap T TD) F) (n : Int → F) : Prop :=
  ∀ t h, ∃ h', gon t h = (Except.ok (n t), h')

/-- the value of a call of the closure on a cache state -/
def valOf (r : Except Exc F × Orbital.Heap T TD) : F :=
  match r.1 with
  | .ok v => v
  | .error _ => default

/-- `optimize.bisect(f, a, b, rtol)` as an abstract root finder `bisF g a b = some x` / `none` (ValueError) on the values
    of `f` (the model's `bis`) -/
def bisOf (bisF : (F → F) → F → F → Option F) (ofTick : Int → F) (f : F → MS (Orbital.Heap T TD) F) (a b : Int) (rtol : F) :
    MS (Orbital.Heap T TD) F := fun h =>
  (match bisF (fun x => valOf (f x h)) (ofTick a) (ofTick b) with
   | some x => Except.ok x
   | none => Except.error Exc.ValueError, h)

/-- the root the bisection is asked for: `none` when the gate closes or the bisection raises ValueError -/
def crossRoot (n : Int → F) (ofTick : Int → F) (toTick : F → Int) (bisF : (F → F) → F → F → Option F)
    (tstart tend : Int) (descending : Bool) : Option F :=
  if FloatArith.toInt (n tend) - FloatArith.toInt (n tstart) == 0 then none
  else if descending then
    bisF (fun x => FloatOps.sub (n (toTick x))
      (FloatArith.add (FloatOps.ofInt (FloatArith.toInt (n tend))) (FloatArith.lit 5 (-1)))) (ofTick tstart) (ofTick tend)
  else
    bisF (fun x => FloatOps.sub (n (toTick x)) (FloatOps.ofInt (FloatArith.toInt (n tend)))) (ofTick tstart) (ofTick tend)

/-- what is returned for a root: the datetime of its tick, moved to local time when asked -/
def finish (ah : UTC → F → M UTC) (gl : UTC → M (F × F × F)) (dot : F → Str → M UTC) (self : Orbital.Self F T) (lt : Bool) :
    Option F → M (Option UTC)
  | none => Except.ok none
  | some x => dot x ['u', 's'] >>= fun u =>
      if lt then Orbital.utc2local (add_hours := ah) (get_lonlatalt := gl) self u >>= fun v => Except.ok (some v)
      else Except.ok (some u)

variable (days : TD → F) (lastAn : T → M T) (pos : T → M (Vec × Vec)) (toT : Int → M T) (get : Vec → Int → F)
  (ah : UTC → F → M UTC) (gl : UTC → M (F × F × F)) (dot : F → Str → M UTC) (toTick : F → Int) (ofTick : Int → F)
  (bisF : (F → F) → F → F → Option F) (self : Orbital.Self F T) (n : Int → F)

/-- the closure on any cache state: the orbit number of the tick, minus the offset -/
theorem nprime_int_val
    (hp : Pure (fun t => Orbital.get_orbit_number__as_float_True (astronomy_days := days) (get_last_an_time := lastAn)
      (get_position := pos) (np_datetime64 := toT) (vec_get := get) self t false) n)
    (off : Int) (tu : Str) (x : F) (h : Orbital.Heap T TD) :
    valOf (Orbital.crossing_nprime_int (astronomy_days := days) (datetime64_of_ticks := fun x _ => Except.ok (toTick x))
      (get_last_an_time := lastAn) (get_position := pos) (np_datetime64 := toT) (vec_get := get) self off tu x h) =
      FloatOps.sub (n (toTick x)) (FloatOps.ofInt off) := by
  unfold Orbital.crossing_nprime_int
  obtain ⟨h', e⟩ := hp (toTick x) h
  simp only [] at e
  simp only [ms_bind, ms_lift, e, ms_pure]
  rfl

theorem nprime_float_val
    (hp : Pure (fun t => Orbital.get_orbit_number__as_float_True (astronomy_days := days) (get_last_an_time := lastAn)
      (get_position := pos) (np_datetime64 := toT) (vec_get := get) self t false) n)
    (off : F) (tu : Str) (x : F) (h : Orbital.Heap T TD) :
    valOf (Orbital.crossing_nprime_float (astronomy_days := days) (datetime64_of_ticks := fun x _ => Except.ok (toTick x))
      (get_last_an_time := lastAn) (get_position := pos) (np_datetime64 := toT) (vec_get := get) self off tu x h) =
      FloatOps.sub (n (toTick x)) off := by
  unfold Orbital.crossing_nprime_float
  obtain ⟨h', e⟩ := hp (toTick x) h
  simp only [] at e
  simp only [ms_bind, ms_lift, e, ms_pure]
  rfl


/-- **C11 tie (`get_equatorial_crossing_time`, node="ascending").**  With an orbit number that does not depend on the cache:
    the call returns `finish (crossRoot ...)` — None when `int(n_end) - int(n_start) == 0` or the bisection raises
    ValueError, else the datetime of the root of `n(t) - offset` the bisection finds between the ticks of `tstart` and
    `tend` — for every cache state it starts from. -/
theorem crossing_ascending_eq
    (hp : Pure (fun t => Orbital.get_orbit_number__as_float_True (astronomy_days := days) (get_last_an_time := lastAn)
      (get_position := pos) (np_datetime64 := toT) (vec_get := get) self t false) n)
    (tstart tend : Int) (lt : Bool) (rtol : F) (h : Orbital.Heap T TD) :
    ∃ h', Orbital.get_equatorial_crossing_time__node_ascending (add_hours := ah) (astronomy_days := days)
        (bisect_ticks := bisOf bisF ofTick) (datetime64_of_ticks := fun x _ => Except.ok (toTick x)) (datetime_of_ticks := dot)
        (get_last_an_time := lastAn) (get_lonlatalt := gl) (get_position := pos) (np_datetime64 := toT) (vec_get := get)
        self tstart tend lt rtol h =
      (finish ah gl dot self lt (crossRoot n ofTick toTick bisF tstart tend false), h') := by
  unfold Orbital.get_equatorial_crossing_time__node_ascending
  obtain ⟨h1, e1⟩ := hp tstart h
  obtain ⟨h2, e2⟩ := hp tend h1
  simp only [] at e1 e2
  refine ⟨h2, ?_⟩
  simp only [ms_bind, e1, e2, crossRoot]
  by_cases hg : (FloatArith.toInt (n tend) - FloatArith.toInt (n tstart) == 0) = true
  · simp only [hg, if_true, finish]; rfl
  · have hv : (fun x => valOf (Orbital.crossing_nprime_int (astronomy_days := days)
        (datetime64_of_ticks := fun x _ => Except.ok (toTick x)) (get_last_an_time := lastAn) (get_position := pos)
        (np_datetime64 := toT) (vec_get := get) self (FloatArith.toInt (n tend)) ['u', 's'] x h2)) =
        fun x => FloatOps.sub (n (toTick x)) (FloatOps.ofInt (FloatArith.toInt (n tend))) := by
      funext x
      exact nprime_int_val days lastAn pos toT get toTick self n hp _ _ x h2
    simp only [hg, Bool.false_eq_true, if_false, if_true, ite_self, ms_tryCatch, ms_bind, bisOf, hv]
    cases hb : bisF _ (ofTick tstart) (ofTick tend) with
    | none => simp only [finish]; rfl
    | some x =>
      have hr : ∀ (hh : Orbital.Heap T TD), (ExceptT.run ((pure () : StateT F (ExceptT (Option UTC) (MS (Orbital.Heap T TD))) Unit) x) hh) =
          (Except.ok (Except.ok ((), x)), hh) := fun _ => rfl
      simp only [finish, hr, EarlyReturn.runK, ms_bind, ms_lift]
      cases hd : dot x ['u', 's'] with
      | error e => rfl
      | ok u =>
        cases lt
        · rfl
        · simp only [if_true, ok_bind, ms_bind, ms_lift]
          cases hu : Orbital.utc2local (add_hours := ah) (get_lonlatalt := gl) self u <;> rfl

/-- **C11 tie (`get_equatorial_crossing_time`, node="descending").**  With an orbit number that does not depend on the cache:
    the call returns `finish (crossRoot ...)` — None when `int(n_end) - int(n_start) == 0` or the bisection raises
    ValueError, else the datetime of the root of `n(t) - offset` the bisection finds between the ticks of `tstart` and
    `tend` — for every cache state it starts from. -/
theorem crossing_descending_eq
    (hp : Pure (fun t => Orbital.get_orbit_number__as_float_True (astronomy_days := days) (get_last_an_time := lastAn)
      (get_position := pos) (np_datetime64 := toT) (vec_get := get) self t false) n)
    (tstart tend : Int) (lt : Bool) (rtol : F) (h : Orbital.Heap T TD) :
    ∃ h', Orbital.get_equatorial_crossing_time__node_descending (add_hours := ah) (astronomy_days := days)
        (bisect_ticks := bisOf bisF ofTick) (datetime64_of_ticks := fun x _ => Except.ok (toTick x)) (datetime_of_ticks := dot)
        (get_last_an_time := lastAn) (get_lonlatalt := gl) (get_position := pos) (np_datetime64 := toT) (vec_get := get)
        self tstart tend lt rtol h =
      (finish ah gl dot self lt (crossRoot n ofTick toTick bisF tstart tend true), h') := by
  unfold Orbital.get_equatorial_crossing_time__node_descending
  obtain ⟨h1, e1⟩ := hp tstart h
  obtain ⟨h2, e2⟩ := hp tend h1
  simp only [] at e1 e2
  refine ⟨h2, ?_⟩
  simp only [ms_bind, e1, e2, crossRoot]
  by_cases hg : (FloatArith.toInt (n tend) - FloatArith.toInt (n tstart) == 0) = true
  · simp only [hg, if_true, finish]; rfl
  · have hv : (fun x => valOf (Orbital.crossing_nprime_float (astronomy_days := days)
        (datetime64_of_ticks := fun x _ => Except.ok (toTick x)) (get_last_an_time := lastAn) (get_position := pos)
        (np_datetime64 := toT) (vec_get := get) self (FloatArith.add (FloatOps.ofInt (FloatArith.toInt (n tend))) (FloatArith.lit 5 (-1))) ['u', 's'] x h2)) =
        fun x => FloatOps.sub (n (toTick x)) (FloatArith.add (FloatOps.ofInt (FloatArith.toInt (n tend))) (FloatArith.lit 5 (-1))) := by
      funext x
      exact nprime_float_val days lastAn pos toT get toTick self n hp _ _ x h2
    simp only [hg, Bool.false_eq_true, if_false, if_true, ite_self, ms_tryCatch, ms_bind, bisOf, hv]
    cases hb : bisF _ (ofTick tstart) (ofTick tend) with
    | none => simp only [finish]; rfl
    | some x =>
      have hr : ∀ (hh : Orbital.Heap T TD), (ExceptT.run ((pure () : StateT F (ExceptT (Option UTC) (MS (Orbital.Heap T TD))) Unit) x) hh) =
          (Except.ok (Except.ok ((), x)), hh) := fun _ => rfl
      simp only [finish, hr, EarlyReturn.runK, ms_bind, ms_lift]
      cases hd : dot x ['u', 's'] with
      | error e => rfl
      | ok u =>
        cases lt
        · rfl
        · simp only [if_true, ok_bind, ms_bind, ms_lift]
          cases hu : Orbital.utc2local (add_hours := ah) (get_lonlatalt := gl) self u <;> rfl

end PV.Equiv.TranslatedCrossing
