/-
  PV.Equiv.Look — T-C tie for the look angles (module-level function and Orbital method), the sub-satellite point
  (Orbital.get_lonlatalt and geoloc.get_lonlatalt, loop unrolled to two passes) and kep2xyz.
-/
import PV.Equiv.Tactic
import PV.Equiv.Astro
import PV.Model.Look
import PV.Model.Sgp4
import PV.Generated.Kernels
set_option linter.unusedTactic false
set_option linter.unreachableTactic false
set_option linter.unnecessarySeqFocus false

namespace PV.Equiv.Look
open PV PV.Astro PV.Look PV.Equiv.Astro

/-- numpy's `clip` = `minimum(maximum(x, lo), hi)`; the model writes it as two comparisons -/
theorem r_clip1 (x : ℝ) : clip1 x = min (max x (-1)) 1 := by
  simp only [clip1, r_lt, r_gt, r_neg, r_ofNat, Nat.cast_one]
  by_cases h2 : (1 : ℝ) < x
  · have : max x (-1) = x := max_eq_left (by linarith)
    simp [h2, this, min_eq_right h2.le]
  · by_cases h1 : x < -1
    · have : max x (-1) = -1 := max_eq_right h1.le
      simp [h1, h2, this]
    · have : max x (-1) = x := max_eq_left (not_lt.mp h1)
      simp [h1, h2, this, min_eq_left (not_lt.mp h2)]

theorem look_module_eq (d sl sa sh lon lat alt : ℝ) :
    Gen.K.orbital_get_observer_look d sl sa sh lon lat alt =
      [(lookModule d sl sa sh lon lat alt).1, (lookModule d sl sa sh lon lat alt).2] := by
  simp only [Gen.K.orbital_get_observer_look, observer_position_eq, gmst_eq, Gen.K.nth, List.getD_cons_zero,
    List.getD_cons_succ, lookModule, lookModuleOfDiff, topo, V3.sub, r_clip1] <;> kernel_eq

theorem look_method_eq (d px py pz lon lat alt : ℝ) :
    Gen.K.orbital_Orbital_get_observer_look d px py pz lon lat alt =
      [(lookMethodOfPos d ⟨px, py, pz⟩ lon lat alt).1, (lookMethodOfPos d ⟨px, py, pz⟩ lon lat alt).2] := by
  simp only [Gen.K.orbital_Orbital_get_observer_look, observer_position_eq, gmst_eq, Gen.K.nth, List.getD_cons_zero,
    List.getD_cons_succ, lookMethodOfPos, lookModuleOfDiff, topo, V3.sub, r_clip1] <;> kernel_eq

/-! ### sub-satellite point: the loop of `get_lonlatalt`, pass by pass

The traced kernels `_p1` / `_p2` are the outputs when the loop exits in its first / second pass, `_pK_cJ` the exit tests met
on the way.  They are the model's `wrapLon`, `latStep`, exit test and altitude formula applied to the initial latitude
and to its first iterate: the loop body is the same function in every pass (`latLoop_succ`). -/

noncomputable def r0 (p : V3 ℝ) : ℝ := Num.sqrt (Num.sq p.x + Num.sq p.y)
noncomputable def lat0 (p : V3 ℝ) : ℝ := Num.atan2 p.z (r0 p)
noncomputable def lon0 (d : ℝ) (p : V3 ℝ) : ℝ :=
  Num.rad2deg (wrapLon (Num.atan2 (p.y * (Gen.orbital_XKMPER : ℝ)) (p.x * (Gen.orbital_XKMPER : ℝ)) - gmst d))
/-- outputs when the loop exits in the pass that starts from `lat2` -/
noncomputable def passOut (d : ℝ) (p : V3 ℝ) (lat2 : ℝ) : List ℝ :=
  [lon0 d p, Num.rad2deg (latStep p.z (r0 p) lat2).1,
   altOf p.z (r0 p) (latStep p.z (r0 p) lat2).1 * (Look.A : ℝ)]
/-- exit test of the pass that starts from `lat2` -/
noncomputable def exitTest (p : V3 ℝ) (lat2 : ℝ) : Bool := Num.lt (Num.abs ((latStep p.z (r0 p) lat2).1 - lat2)) (1e-10 : ℝ)

/-- the model's loop is exactly: exit test, else the same body again from the new latitude -/
theorem latLoop_succ (z r : ℝ) (fuel : Nat) (lat2 : ℝ) :
    latLoop z r (fuel + 1) lat2 =
      if Num.lt (Num.abs ((latStep z r lat2).1 - lat2)) (1e-10 : ℝ) then some ((latStep z r lat2).1, (latStep z r lat2).2, 1)
      else (latLoop z r fuel (latStep z r lat2).1).map fun x => (x.1, x.2.1, x.2.2 + 1) := by
  simp only [latLoop]
  split <;> rename_i h
  · rfl
  · cases latLoop z r fuel (latStep z r lat2).1 <;> rfl

/-- and the model's result is `passOut` of the pass in which the loop exits -/
theorem lonLatAlt_first_pass (d : ℝ) (p : V3 ℝ) (fuel : Nat) (h : exitTest p (lat0 p) = true) :
    (lonLatAlt d p (fuel + 1)).map (fun x => [x.1, x.2.1, x.2.2.1]) = some (passOut d p (lat0 p)) := by
  simp only [exitTest, lat0, r0] at h
  simp only [lonLatAlt, latLoop, h, passOut, lon0, lat0, r0]
  rfl

section method
variable (d px py pz : ℝ)

theorem lonlatalt_method_p1 :
    Gen.K.orbital_Orbital_get_lonlatalt_p1 d px py pz = passOut d ⟨px, py, pz⟩ (lat0 ⟨px, py, pz⟩) := by
  simp only [Gen.K.orbital_Orbital_get_lonlatalt_p1, passOut, altOf, lon0, lat0, r0, latStep, wrapLon, gmst_eq, Gen.K.nth, List.getD_cons_zero, List.getD_cons_succ, e2, Look.F,
    Look.A] <;> kernel_eq

theorem lonlatalt_method_p1_c1 :
    Gen.K.orbital_Orbital_get_lonlatalt_p1_c1 d px py pz = exitTest ⟨px, py, pz⟩ (lat0 ⟨px, py, pz⟩) := by
  simp only [Gen.K.orbital_Orbital_get_lonlatalt_p1_c1, exitTest, lat0, r0, latStep, e2, Look.F] <;> kernel_eq

theorem lonlatalt_method_p2 :
    Gen.K.orbital_Orbital_get_lonlatalt_p2 d px py pz =
      passOut d ⟨px, py, pz⟩ (latStep pz (r0 ⟨px, py, pz⟩) (lat0 ⟨px, py, pz⟩)).1 := by
  simp only [Gen.K.orbital_Orbital_get_lonlatalt_p2, passOut, altOf, lon0, lat0, r0, latStep, wrapLon, gmst_eq, Gen.K.nth, List.getD_cons_zero, List.getD_cons_succ, e2, Look.F,
    Look.A] <;> kernel_eq

theorem lonlatalt_method_p2_c1 :
    Gen.K.orbital_Orbital_get_lonlatalt_p2_c1 d px py pz = exitTest ⟨px, py, pz⟩ (lat0 ⟨px, py, pz⟩) := by
  simp only [Gen.K.orbital_Orbital_get_lonlatalt_p2_c1, exitTest, lat0, r0, latStep, e2, Look.F] <;> kernel_eq

theorem lonlatalt_method_p2_c2 :
    Gen.K.orbital_Orbital_get_lonlatalt_p2_c2 d px py pz =
      exitTest ⟨px, py, pz⟩ (latStep pz (r0 ⟨px, py, pz⟩) (lat0 ⟨px, py, pz⟩)).1 := by
  simp only [Gen.K.orbital_Orbital_get_lonlatalt_p2_c2, exitTest, lat0, r0, latStep, e2, Look.F] <;> kernel_eq

end method

/-! `geoloc.get_lonlatalt(pos_km, t)` divides by XKMPER first, then is the same computation -/
section geolocfn
variable (d px py pz : ℝ)
noncomputable def pn (px py pz : ℝ) : V3 ℝ :=
  ⟨px / (Gen.orbital_XKMPER : ℝ), py / (Gen.orbital_XKMPER : ℝ), pz / (Gen.orbital_XKMPER : ℝ)⟩

theorem lonlatalt_geoloc_p1 :
    Gen.K.geoloc_get_lonlatalt_p1 d px py pz = passOut d (pn px py pz) (lat0 (pn px py pz)) := by
  simp only [Gen.K.geoloc_get_lonlatalt_p1, pn, passOut, altOf, lon0, lat0, r0, latStep, wrapLon, gmst_eq, Gen.K.nth, List.getD_cons_zero, List.getD_cons_succ, e2, Look.F,
    Look.A, Gen.geoloc_A, Gen.orbital_A] <;> kernel_eq

theorem lonlatalt_geoloc_p1_c1 :
    Gen.K.geoloc_get_lonlatalt_p1_c1 d px py pz = exitTest (pn px py pz) (lat0 (pn px py pz)) := by
  simp only [Gen.K.geoloc_get_lonlatalt_p1_c1, pn, exitTest, lat0, r0, latStep, e2, Look.F] <;> kernel_eq

theorem lonlatalt_geoloc_p2 :
    Gen.K.geoloc_get_lonlatalt_p2 d px py pz =
      passOut d (pn px py pz) (latStep (pn px py pz).z (r0 (pn px py pz)) (lat0 (pn px py pz))).1 := by
  simp only [Gen.K.geoloc_get_lonlatalt_p2, pn, passOut, altOf, lon0, lat0, r0, latStep, wrapLon, gmst_eq, Gen.K.nth, List.getD_cons_zero, List.getD_cons_succ, e2, Look.F,
    Look.A, Gen.geoloc_A, Gen.orbital_A] <;> kernel_eq

theorem lonlatalt_geoloc_p2_c2 :
    Gen.K.geoloc_get_lonlatalt_p2_c2 d px py pz =
      exitTest (pn px py pz) (latStep (pn px py pz).z (r0 (pn px py pz)) (lat0 (pn px py pz))).1 := by
  simp only [Gen.K.geoloc_get_lonlatalt_p2_c2, pn, exitTest, lat0, r0, latStep, e2, Look.F] <;> kernel_eq

end geolocfn

/-! ### kep2xyz -/
theorem kep2xyz_eq (k : Sgp4.Kep ℝ) :
    Gen.K.orbital_kep2xyz k.theta k.eqinc k.ascn k.radius k.rdotk k.rfdotk =
      [(Sgp4.kep2xyz k).1.x, (Sgp4.kep2xyz k).1.y, (Sgp4.kep2xyz k).1.z,
       (Sgp4.kep2xyz k).2.x, (Sgp4.kep2xyz k).2.y, (Sgp4.kep2xyz k).2.z] := by
  simp only [Gen.K.orbital_kep2xyz, Sgp4.kep2xyz] <;> kernel_eq

end PV.Equiv.Look
