/-
  PV.Equiv.TranslatedPasses — tie T-D for C03: the translation of `Orbital.get_next_passes` (the loop over the zero
  crossings, the rise / fall bookkeeping, `continue` while no rise is known, `int_start` / `int_end` / `middle`, the bracket
  handed to `_get_max_parab`, the result list; `risetime` is not reset after a pass) is the model `PV.Passes.passes`.

  The numeric kernels are parameters at the granularity of the model: the elevation samples (minus horizon), the
  sign-change indices (`np.where(np.diff(np.sign(.)))[0]`, instantiated with the model's `zeroCrossings`), `_get_root`
  (`root g`), `_get_max_parab` (`maxim lo hi`), `int(np.floor(.))` / `int(np.ceil(.) + 1)` (`FloorCeil`), `np.argmax`,
  `t + timedelta(minutes=m)`.
-/
import PV.Equiv.TranslatedLemmas
import PV.Generated.Translated
import PV.Model.Passes
set_option linter.unusedVariables false
set_option linter.unusedSectionVars false
set_option linter.unusedSimpArgs false

namespace PV.Equiv.TranslatedPasses
open PV PV.Py PV.Gen.T PV.Passes PV.Equiv.TL

variable {α Fn T Times UTC : Type} [Num α] [FloorCeil α]

/-- the float operations of the translation read in the model's `Num α` (only `<`, `max`, `min` and the embedding of an
    `int` occur in `get_next_passes`) -/
instance : FloatOps α where
  ofInt := Passes.ofInt
  intPow _ _ := Num.ofNat 0
  mul a b := a * b
  sub a b := a - b

instance : FloatArith α where
  add a b := a + b
  div a b := a / b
  powNat x n := Num.rpow x (Num.ofNat n)
  abs := Num.abs
  gt a b := Num.lt b a
  lt a b := Num.lt a b
  le a b := Num.le a b
  ge a b := Num.le b a
  max := Num.max
  min := Num.min
  lit m e := if e < 0 then OfScientific.ofScientific m true (-e).toNat else OfScientific.ofScientific m false e.toNat
  toInt x := FloorCeil.floorI x

/-- `l[a:b]` with non-negative bounds is the model's `slice` -/
theorem slice_nat {β : Type} (l : List β) (a b : Nat) : Py.slice l (some (a : Int)) (some (b : Int)) = Passes.slice l a b := by
  simp only [Py.slice, bound, Passes.slice, show ¬ ((a : Int) < 0) by omega, show ¬ ((b : Int) < 0) by omega, if_false,
    Int.toNat_natCast]
  have ht : List.take (min b l.length) l = List.take b l := (List.take_eq_take_min).symm
  rw [ht]
  by_cases h2 : a ≤ l.length
  · rw [Nat.min_eq_left h2]
  · rw [Nat.min_eq_right (by omega)]
    rw [List.drop_eq_nil_of_le (by simp [List.length_take]; omega), List.drop_eq_nil_of_le (by simp [List.length_take]; omega)]

theorem index_nat {β : Type} (l : List β) (g : Nat) :
    Py.index l (g : Int) = match l[g]? with | some x => Except.ok x | none => Except.error Exc.IndexError := by
  unfold Py.index
  simp only [show ¬ ((g : Int) < 0) by omega, if_false, Int.toNat_natCast]
  cases l[g]? <;> rfl

/-- a reported pass as the code returns it: times instead of minutes -/
def toTriple (am : UTC → α → UTC) (utc : UTC) (p : Pass α) : Option UTC × UTC × UTC :=
  (some (am utc p.rise), am utc p.fall, am utc p.culm)

abbrev LoopState (α UTC : Type) := List (Option UTC × UTC × UTC) × Option UTC × Option α

/-- one pass of the `for guess in zcs` loop in the model's terms -/
def bodyOf (e : List α) (root : Nat → α) (maxim : α → α → α) (am : UTC → α → UTC) (utc : UTC) (g : Nat)
    (st : LoopState α UTC) : M (ForInStep (LoopState α UTC)) :=
  match e[g]? with
  | none => Except.error Exc.IndexError
  | some x =>
    if Num.lt x (0 : α) then Except.ok (ForInStep.yield (st.1, some (am utc (root g)), some (root g)))
    else
      match st.2.2 with
      | none => Except.ok (ForInStep.yield st)
      | some r => Except.ok (ForInStep.yield
          (st.1 ++ [(st.2.1, am utc (root g), am utc (mkPass e maxim r (root g)).culm)], st.2.1, st.2.2))

theorem loop_eq (e : List α) (root : Nat → α) (maxim : α → α → α) (am : UTC → α → UTC) (utc : UTC)
    (f : Int → LoopState α UTC → M (ForInStep (LoopState α UTC)))
    (hf : ∀ (g : Nat) (st : LoopState α UTC), st.2.1 = st.2.2.map (am utc) → f (g : Int) st = bodyOf e root maxim am utc g st) :
    ∀ (gs : List Nat) (res : List (Option UTC × UTC × UTC)) (rm : Option α), (∀ g ∈ gs, g < e.length) →
      (forIn (gs.map Int.ofNat) ((res, rm.map (am utc), rm) : LoopState α UTC) f >>= fun st => Except.ok st.1) =
        Except.ok (res ++ (loop e root maxim gs rm).map (toTriple am utc))
  | [], res, rm, _ => by simp [loop]
  | g :: gs, res, rm, h => by
    have hg := h g (by simp)
    have hgs : ∀ x ∈ gs, x < e.length := fun x hx => h x (by simp [hx])
    have hx : e[g]? = some e[g] := List.getElem?_eq_getElem hg
    have hb := hf g (res, rm.map (am utc), rm) rfl
    rw [List.map_cons, List.forIn_cons, show Int.ofNat g = (g : Int) from rfl, hb]
    simp only [bodyOf, hx, loop]
    by_cases hl : Num.lt e[g] (0 : α) = true
    · simp only [hl, if_true, ok_bind]
      exact loop_eq e root maxim am utc f hf gs res (some (root g)) hgs
    · simp only [hl, Bool.false_eq_true, if_false]
      cases rm with
      | none =>
        simp only [ok_bind]
        exact loop_eq e root maxim am utc f hf gs res none hgs
      | some r =>
        simp only [ok_bind, Option.map_some]
        have := loop_eq e root maxim am utc f hf gs
          (res ++ [(some (am utc r), am utc (root g), am utc (mkPass e maxim r (root g)).culm)]) (some r) hgs
        simp only [Option.map_some] at this
        rw [this]
        simp [toTriple, mkPass, List.append_assoc]

theorem zeroCrossings_lt (e : List α) : ∀ g ∈ zeroCrossings e, g < e.length := by
  intro g hg
  have := (List.mem_filter.mp hg).1
  have := List.mem_range.mp this
  omega

/-- **C03 tie, the kernels as functions.**  As `get_next_passes_eq` below, with `_get_root` and `_get_max_parab` any
    functions that, on the two `partial` objects of this call and its `tol`, answer `root g` and `maxim lo hi` (so that
    they can be instantiated with translated code: PV.Equiv.TranslatedPassesParab).
    `get_next_passes(utc_time, length, lon, lat, alt, tol, horizon)` as the source has it now, on the
    elevation samples `e` (minus horizon): the model's `passes`, each pass reported as (rise, fall, culmination) times.
    `hceil`: the roots are not below −1 minute (`_get_root` answers inside `[guess, guess + 1]`, `guess ≥ 0`), so that
    `int_end` is not negative (a negative slice bound would count from the end). -/
theorem get_next_passes_eq_of (e : List α) (root : Nat → α) (maxim : α → α → α) (am : UTC → α → UTC)
    (mg : UTC → Int → Times) (ef eif : UTC → α → α → α → α → Fn) (self : Orbital.Self α T) (utc : UTC) (len : Int)
    (lon lat alt tol hor : α) (hceil : ∀ g, 0 ≤ FloorCeil.ceilI (root g) + 1)
    (gmp : Fn → α → α → α → M α) (gr : Fn → Int → Int → α → M α)
    (hgmp : ∀ lo hi, gmp (eif utc lon lat alt hor) lo hi tol = Except.ok (maxim lo hi))
    (hgr : ∀ g : Nat, gr (ef utc lon lat alt hor) (g : Int) (g : Int) tol = Except.ok (root g)) :
    Orbital.get_next_passes (add_minutes := fun u m => Except.ok (am u m)) (elevation_fn := ef) (elevation_inv_fn := eif)
        (elevation_samples := fun _ _ _ _ _ => Except.ok e) (get_max_parab := gmp)
        (get_root := gr)
        (int_ceil_plus_1 := fun x => Except.ok (FloorCeil.ceilI x + 1)) (int_floor := fun x => Except.ok (FloorCeil.floorI x))
        (minute_grid := mg) (np_argmax := fun l => Except.ok (argmax l : Int))
        (sign_changes := fun l => (zeroCrossings l).map Int.ofNat) self utc len lon lat alt tol hor =
      Except.ok ((passes e root maxim).map (toTriple am utc)) := by
  unfold Orbital.get_next_passes passes
  simp only [ok_bind, pure_eq]
  have key := fun f hf => loop_eq e root maxim am utc f hf (zeroCrossings e) [] none (zeroCrossings_lt e)
  simp only [Option.map_none, List.nil_append] at key
  refine key _ ?_
  -- the body of the loop, whatever its syntactic shape, is one `bodyOf`
  intro g st hinv
  obtain ⟨res, rt, rm⟩ := st
  simp only at hinv
  subst hinv
  simp only [ok_bind, index_nat, Int.toNat_natCast, bodyOf, hgr, hgmp]
  cases hx : e[g]? with
  | none => rfl
  | some x =>
    simp only [ok_bind, FloatArith.lt, FloatOps.ofInt, hgr, hgmp]
    have h0 : (Passes.ofInt (0 : Int) : α) = (0 : α) := rfl
    rw [h0]
    by_cases hl : Num.lt x (0 : α) = true
    · simp [hl]
    · simp only [hl, Bool.false_eq_true, if_false]
      cases rm with
      | none => rfl
      | some r =>
        have hc := hceil g
        have e1 : max (0 : Int) (FloorCeil.floorI r) = ((intStart r : Nat) : Int) := by
          unfold intStart; omega
        have e2 : min (e.length : Int) (FloorCeil.ceilI (root g) + 1) = ((intEnd e (root g) : Nat) : Int) := by
          unfold intEnd; omega
        simp only [Option.map_some, Option.isNone_some, Bool.false_eq_true, if_false, need_some, ok_bind, e1, e2,
          slice_nat, FloatArith.max, FloatArith.min, FloatOps.ofInt, mkPass, hgmp, hgr]
        simp only [Int.natCast_add]

/-- **C03 tie.**  `get_next_passes(utc_time, length, lon, lat, alt, tol, horizon)` as the source has it now, on the
    elevation samples `e` (minus horizon): the model's `passes`, each pass reported as (rise, fall, culmination) times.
    `hceil`: the roots are not below −1 minute (`_get_root` answers inside `[guess, guess + 1]`, `guess ≥ 0`), so that
    `int_end` is not negative (a negative slice bound would count from the end). -/
theorem get_next_passes_eq (e : List α) (root : Nat → α) (maxim : α → α → α) (am : UTC → α → UTC)
    (mg : UTC → Int → Times) (ef eif : UTC → α → α → α → α → Fn) (self : Orbital.Self α T) (utc : UTC) (len : Int)
    (lon lat alt tol hor : α) (hceil : ∀ g, 0 ≤ FloorCeil.ceilI (root g) + 1) :
    Orbital.get_next_passes (add_minutes := fun u m => Except.ok (am u m)) (elevation_fn := ef) (elevation_inv_fn := eif)
        (elevation_samples := fun _ _ _ _ _ => Except.ok e) (get_max_parab := fun _ lo hi _ => Except.ok (maxim lo hi))
        (get_root := fun _ g _ _ => Except.ok (root g.toNat))
        (int_ceil_plus_1 := fun x => Except.ok (FloorCeil.ceilI x + 1)) (int_floor := fun x => Except.ok (FloorCeil.floorI x))
        (minute_grid := mg) (np_argmax := fun l => Except.ok (argmax l : Int))
        (sign_changes := fun l => (zeroCrossings l).map Int.ofNat) self utc len lon lat alt tol hor =
      Except.ok ((passes e root maxim).map (toTriple am utc)) := by
  unfold Orbital.get_next_passes passes
  simp only [ok_bind, pure_eq]
  have key := fun f hf => loop_eq e root maxim am utc f hf (zeroCrossings e) [] none (zeroCrossings_lt e)
  simp only [Option.map_none, List.nil_append] at key
  refine key _ ?_
  -- the body of the loop, whatever its syntactic shape, is one `bodyOf`
  intro g st hinv
  obtain ⟨res, rt, rm⟩ := st
  simp only at hinv
  subst hinv
  simp only [ok_bind, index_nat, Int.toNat_natCast, bodyOf]
  cases hx : e[g]? with
  | none => rfl
  | some x =>
    simp only [ok_bind, FloatArith.lt, FloatOps.ofInt]
    have h0 : (Passes.ofInt (0 : Int) : α) = (0 : α) := rfl
    rw [h0]
    by_cases hl : Num.lt x (0 : α) = true
    · simp [hl]
    · simp only [hl, Bool.false_eq_true, if_false]
      cases rm with
      | none => rfl
      | some r =>
        have hc := hceil g
        have e1 : max (0 : Int) (FloorCeil.floorI r) = ((intStart r : Nat) : Int) := by
          unfold intStart; omega
        have e2 : min (e.length : Int) (FloorCeil.ceilI (root g) + 1) = ((intEnd e (root g) : Nat) : Int) := by
          unfold intEnd; omega
        simp only [Option.map_some, Option.isNone_some, Bool.false_eq_true, if_false, need_some, ok_bind, e1, e2,
          slice_nat, FloatArith.max, FloatArith.min, FloatOps.ofInt, mkPass]
        simp only [Int.natCast_add]

end PV.Equiv.TranslatedPasses
