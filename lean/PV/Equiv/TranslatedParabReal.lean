/-
  PV.Equiv.TranslatedParabReal — tie T-D for C03, read over ℝ: the translated `_get_max_parab` is the loop model
  `PV.Parab.maxParab` with no operation signalling `invalid`; on a convex quadratic the translated source returns the
  vertex (the minimum of `fun`) by the accepted path.
-/
import PV.Equiv.TranslatedParab
import PV.Lemmas.C03ParabLoop
set_option linter.unusedSectionVars false

namespace PV.Equiv.TranslatedParabReal
open PV PV.Py PV.Gen.T PV.Passes PV.Equiv.TL PV.Equiv.TranslatedParab
open PV.Parab (Outcome St Step Why Flags)

/-- the translator writes the literal `2.0` of the source as `2 · 10⁰`, the model as `20 · 10⁻¹` -/
theorem two_lit_real :
    @OfScientific.ofScientific ℝ instOfScientificNum 2 false 0 = @OfScientific.ofScientific ℝ instOfScientificNum 20 true 1 := by
  simp only [r_ofSci]; norm_num

/-- **C03 tie over ℝ.**  For every `fun` that does not raise, bracket, tolerance and fuel: the translated source with
    that fuel is the model's outcome (the bounded search `gmb` is a parameter: it is called exactly in the model's
    `fallback` outcomes, with the original arguments). -/
theorem get_max_parab_real (f : ℝ → ℝ) (gmb : (ℝ → M ℝ) → ℝ → ℝ → ℝ → M ℝ) (lo hi tol : ℝ) (fuel : Nat) :
    @_get_max_parab ℝ _ _ (fpInv (Flags.never ℝ)) gmb fuel (fun x => Except.ok (f x)) lo hi tol
      = resultOf (gmb (fun x => Except.ok (f x)) lo hi tol) (Parab.maxParab (Flags.never ℝ) f lo hi tol fuel) :=
  get_max_parab_eq (Flags.never ℝ) f gmb lo hi tol fuel two_lit_real

/-- on a convex quadratic the source returns the vertex, with any fuel of at least two passes and without calling the
    bounded search -/
theorem get_max_parab_quadratic (p q k lo hi tol : ℝ) (hp : 0 < p) (hlt : lo < hi) (htol : 0 ≤ tol)
    (gmb : (ℝ → M ℝ) → ℝ → ℝ → ℝ → M ℝ) (fuel : Nat) (hn : 2 ≤ fuel) :
    @_get_max_parab ℝ _ _ (fpInv (Flags.never ℝ)) gmb fuel (fun t => Except.ok (p * t ^ 2 + q * t + k)) lo hi tol
      = Except.ok (-q / (2 * p)) := by
  rw [get_max_parab_real (fun t => p * t ^ 2 + q * t + k), C03L.maxParab_quadratic p q k lo hi tol hp hlt htol fuel hn]
  rfl

end PV.Equiv.TranslatedParabReal
