/-
  PV.Equiv.Sgp4 — T-C tie for the SGP4 core of pyorbital/orbital.py (DESIGN 2.3, "stretch goal" cut at instance
  attributes), umbrella module of PV/Equiv/Sgp4Init.lean and PV/Equiv/Sgp4Prop.lean.

  harness/symtrace_sgp4.py runs the REAL code of the current source on symbolic scalars.  Every store into an attribute
  of the traced object and every helper-method argument / return value is a cut point: the value is recorded as a
  *stage* (a decision tree over the branch conditions of the path, collapsed where both sides agree) and replaced by a
  fresh symbol named after the attribute (`eta`; `xmp_1`, `xmp_2` when stored twice), the callee's parameter (`coef`,
  `tsi`, `theta2`) or `<method>_r<i>`.  PV/Generated/KernelsSgp4.lean holds one definition per stage, a function of
  the *named* symbols it reads; the theorems here apply them with named arguments, so which stage feeds which is part of
  every statement (reading `self.c2` for `self.c1`, `orbit_elements.perigee` for `self.perigee`, `xn_0` for `xnodp`
  changes a parameter name and the statement stops elaborating).  `stage_names_pinned` below fixes the set of stages:
  a stage added to the source cannot go unnoticed.

  What is proved, for ALL real inputs (model = PV/Model/Sgp4.lean, the object of the theorems of C01, C13, C20).
  Theorems named oe_* / init_* / *_eq_stages live in namespace PV.Equiv.Sgp4Init, kep_* / nr_* / gp_* / newton* /
  calculate_eq_stages / getPosition_eq in PV.Equiv.Sgp4Prop.  `X_eq`: traced stage = model stage; `*_eq_stages`: the
  monolithic model function is the composition of the stages (`rfl`); `*_literal`: thresholds as literals (the model
  takes them from the regenerated constants, so a changed threshold would otherwise move both sides); `*_stored`,
  `*_final`: attributes stored twice; `*_outcome_eq`: which exception, if any.

  | source (orbital.py)                         | traced stages `Gen.KS.*`                         | model                     | theorems |
  |---------------------------------------------|--------------------------------------------------|---------------------------|----------|
  | OrbitElements.__init__                      | oe_excentricity .. oe_mean_anomaly, oe_mean_motion, oe_bstar | `elements` fields | oe_excentricity_eq, oe_inclination_eq, oe_right_ascension_eq, oe_arg_perigee_eq, oe_mean_anomaly_eq, oe_mean_motion_eq, oe_bstar_eq |
  |   _calculate_mean_motion_and_semi_major_axis| oe_calculate_mean_motion_and_semi_major_axis_r0/_r1 | `oeRecover`            | oe_recover_r0_eq, oe_recover_r1_eq |
  |   original_mean_motion, semi_major_axis, period, perigee | oe_original_mean_motion, oe_semi_major_axis, oe_period, oe_perigee | `elements` | oe_original_mean_motion_eq, oe_semi_major_axis_eq, oe_period_eq, oe_perigee_eq |
  |   `if not mean_motion > 0: raise`           | oe_outcome                                       | `elementsChecked`         | oe_outcome_eq |
  | _check_orbital_elements + _SGDP4Base.__init__ raise/return | init_outcome (6 range tests, `eo < 0`, deep-space refusal) | `checkElements`, `init` | init_outcome_eq |
  | _SGDP4Base.__init__ copies                  | init_eo .. init_xn_0                             | `Elements`                | init_eo_eq, init_xincl_eq, init_xno_eq, init_bstar_eq, init_omegao_eq, init_xmo_eq, init_xnodeo_eq, init_xn_0_eq |
  |   inclination terms                         | init_cosIO, init_sinIO, init_theta2, init_x3thm1, init_x1mth2, init_x7thm1 | `basic` | init_cosIO_eq .. init_x7thm1_eq |
  |   _calculate_basic_orbit_params             | init_betao2, init_betao, init_xnodp, init_aodp, init_perigee, init_apogee, init_period | `basic` (`S.recover`) | init_betao2_eq, init_betao_eq, init_xnodp_stage/_eq, init_aodp_stage/_eq, init_perigee_eq, init_apogee_eq, init_period_eq, basic_eq_stages |
  |   _set_mode                                 | init_mode                                        | `modeOf`, deep test of `init` | init_mode_eq, init_mode_literal |
  |   _get_s4_qoms24 (perigee < 156, s4 < 20)   | init_get_s4_qoms24_r0/_r1                        | `s4qoms24`                | init_s4_eq, init_qoms24_eq, init_s4_literal, init_qoms24_literal |
  |   tsi, eta, eeta, coef                      | init_tsi, init_eta, init_eeta, init_coef         | `coeffs`                  | init_tsi_eq, init_eta_eq, init_eeta_eq, init_coef_eq |
  |   _calculate_c_coefficients (both modes, eo > ECC_ALL) | init_c2, init_c1, init_c4, init_c5_1/_2(+_stored), init_c3_1/_2(+_stored), init_omgcof_1/_2(+_stored) | `coeffs` | init_c2_eq, init_c1_eq, init_c4_eq, init_c5_1_eq, init_c5_2_eq, init_c5_2_stored_eq, init_c5_final, init_c3_1_eq, init_c3_2_eq, init_c3_2_stored_eq, init_c3_final, init_omgcof_1_eq, init_omgcof_2_eq, init_omgcof_2_stored_eq, init_omgcof_final |
  |   _calculate_dot_products                   | init_xmdot, init_omgdot, init_xhdot1, init_xnodot | `coeffs`                 | init_xmdot_eq, init_omgdot_eq, init_xhdot1_eq, init_xnodot_eq |
  |   _calculate_xmcof, xnodcf, t2cof           | init_calculate_xmcof_r, init_xmcof, init_xnodcf, init_t2cof | `coeffs`       | init_calculate_xmcof_r_eq, init_xmcof_eq, init_xnodcf_eq, init_t2cof_eq |
  |   _calculate_xlcof (|1+cos i| < EPS_COS), aycof, cosXMO, sinXMO, delmo | init_calculate_xlcof_r, init_xlcof, init_aycof, init_cosXMO, init_sinXMO, init_delmo | `coeffs` | init_calculate_xlcof_r_eq, init_xlcof_eq, init_aycof_eq, init_cosXMO_eq, init_sinXMO_eq, init_delmo_eq |
  |   _calculate_near_norm_parameters           | init_d2 .. init_t5cof (+_stored: NEAR_NORM only)  | `coeffs`                  | init_d2_eq .. init_t5cof_eq, init_near_norm_stored_eq |
  |   (the model is the composition of its stages) |                                               | `coeffs` = `S.coeffs`     | coeffs_eq_stages |
  | _SGDP4.propagate, _Keplerians.calculate raise/return | kep_outcome (mode refusals, a < 1, e < ECC_LIMIT_LOW, e_L^2 >= 1, r_k < 1) | `propagate`, `calculate` | kep_outcome_eq, calculate_eq_stages |
  |   secular terms                             | kep_ts, kep_xmp_1, kep_xnode, kep_temp0_1, kep_xmp_2, kep_omega | `secular`  | kep_ts_eq .. kep_omega_eq |
  |   drag terms, both modes                    | kep_tempe, kep_templ, kep_a                      | `secular`                 | kep_tempe_eq, kep_templ_eq, kep_a_eq, secular_e0 |
  |   _calculate_e (clamp), axn, ayn, elsq, ecc, xlt | kep_calculate_e_r, kep_temp0_2, kep_axn, kep_ayn, kep_elsq, kep_ecc, kep_xlt | `clampE`, `longPeriod` | kep_calculate_e_r_eq, longPeriod_e, kep_temp0_2_eq, kep_axn_eq, kep_ayn_eq, kep_elsq_eq, kep_ecc_eq, kep_xlt_eq |
  |   _iterate_newton_raphson: initial iterate  | nr_epw_init, nr_capu_init, nr_range              | `longPeriod.capu`, `newton` | nr_epw_init_eq, nr_capu_init_eq, nr_range_eq, nr_passes_eq, newton_eq_loop |
  |   first pass (i = 0, capped step) and the pass after it | nr_first_sinEPW/cosEPW/ecosE/esinE/exit, nr_first_next_* | one step of `newtonLoop` with `i == 0` | nr_first_*_eq, newtonLoop_succ |
  |   passes 1..8 each followed by the next, last pass 9 (identical traces, checked by the generator) | nr_later_* | one step of `newtonLoop` with `i ≠ 0` | nr_later_*_eq, newtonLoop_succ, newtonLoop_zero |
  |   short-period preliminaries                | kep_sinEPW..kep_esinE, kep_temp0_3, kep_betal, kep_pl, kep_r, kep_invR, kep_u, kep_sin2u, kep_cos2u, kep_temp0_4, kep_temp1, kep_temp2 | `shortPeriod` | kep_newton_alias, kep_temp0_3_eq .. kep_temp2_eq, shortPeriod_u |
  |   _update_short_period                      | kep_rk, kep_uk, kep_xnodek, kep_xinc, kep_temp0_5, kep_rdotk, kep_rfdotk | `shortPeriod` | kep_rk_eq .. kep_rfdotk_eq |
  |   _collect_return_values, value returned    | kep_collect_return_values_*, kep_out_*           | `Kep` fields              | kep_collect_radius_eq, kep_collect_smjaxs_eq, kep_collect_ecc_eq, kep_collect_argp_eq, kep_collect_alias, kep_out_alias |
  | Orbital.get_position normalisation          | gp_normalized, gp_raw                            | `getPosition`             | gp_normalized_eq, gp_raw_eq, getPosition_eq (kep2xyz itself: PV.Equiv.Look.kep2xyz_eq) |

  NOT tied (traced and emitted, but there is nothing in the model to compare with, because the propagator never reads
  them): `oe_mean_motion_derivative`, `oe_mean_motion_sec_derivative`, `oe_right_ascension_lon_1/_2(+_stored)`
  (OrbitElements attributes used only by `get_last_an_time`-style callers / not at all).
  NOT traced: the time arithmetic of `_get_timedelta_in_minutes` (datetime64 -> minutes; C12's subject) is replaced by
  the symbol `tsince`; `astronomy.gmst(epoch)` inside OrbitElements by the symbol `gmst_epoch`; `kep2xyz` inside
  `get_position` by six symbols (its own kernel is `Gen.K.orbital_kep2xyz`).
  The branch `if self.eo < 0` of `_SGDP4Base.__init__` is unreachable after `_check_orbital_elements` (it would raise
  AttributeError: the class has no attribute `SGDP4_ZERO_ECC`); `init_outcome_eq` shows the model's omission of it is
  exact.  Attributes stored only on some paths (`d2`..`t5cof`: NEAR_NORM only) are total functions in the model; the
  `_stored` kernels say when the source stores them, and `propagate` refuses every other mode (`kep_outcome_eq`).
  The Kepler loop: the generator itself checks that the passes 1..8 (each traced together with the pass after it) and the
  last pass have identical traces and emits them once (`nr_later_*`); `nr_passes_eq` shows the traced passes are all ten.
-/
import PV.Equiv.Sgp4Init
import PV.Equiv.Sgp4Prop

namespace PV.Equiv.Sgp4

/-- the set of traced stages is exactly the one this tie was written for -/
theorem stage_names_pinned :
    Gen.KS.index.map (·.1) =
  [
   "gp_normalized", "gp_raw", "init_aodp", "init_apogee", "init_aycof", "init_betao", "init_betao2", "init_bstar",
   "init_c1", "init_c2", "init_c3_1", "init_c3_2", "init_c3_2_stored", "init_c4", "init_c5_1", "init_c5_2",
   "init_c5_2_stored", "init_calculate_xlcof_r", "init_calculate_xmcof_r", "init_coef", "init_cosIO", "init_cosXMO",
   "init_d2", "init_d2_stored", "init_d3", "init_d3_stored", "init_d4", "init_d4_stored", "init_delmo", "init_eeta",
   "init_eo", "init_eta", "init_get_s4_qoms24_r0", "init_get_s4_qoms24_r1", "init_mode", "init_omegao",
   "init_omgcof_1", "init_omgcof_2", "init_omgcof_2_stored", "init_omgdot", "init_outcome", "init_perigee",
   "init_period", "init_sinIO", "init_sinXMO", "init_t2cof", "init_t3cof", "init_t3cof_stored", "init_t4cof",
   "init_t4cof_stored", "init_t5cof", "init_t5cof_stored", "init_theta2", "init_tsi", "init_x1mth2", "init_x3thm1",
   "init_x7thm1", "init_xhdot1", "init_xincl", "init_xlcof", "init_xmcof", "init_xmdot", "init_xmo", "init_xn_0",
   "init_xno", "init_xnodcf", "init_xnodeo", "init_xnodot", "init_xnodp", "kep_a", "kep_axn", "kep_ayn",
   "kep_betal", "kep_calculate_e_r", "kep_collect_return_values_argp", "kep_collect_return_values_ascn",
   "kep_collect_return_values_ecc", "kep_collect_return_values_eqinc", "kep_collect_return_values_radius",
   "kep_collect_return_values_rdotk", "kep_collect_return_values_rfdotk", "kep_collect_return_values_smjaxs",
   "kep_collect_return_values_theta", "kep_cos2u", "kep_cosEPW", "kep_ecc", "kep_ecosE", "kep_elsq", "kep_esinE",
   "kep_invR", "kep_omega", "kep_out_argp", "kep_out_ascn", "kep_out_ecc", "kep_out_eqinc", "kep_out_radius",
   "kep_out_rdotk", "kep_out_rfdotk", "kep_out_smjaxs", "kep_out_theta", "kep_outcome", "kep_pl", "kep_r",
   "kep_rdotk", "kep_rfdotk", "kep_rk", "kep_sin2u", "kep_sinEPW", "kep_temp0_1", "kep_temp0_2", "kep_temp0_3",
   "kep_temp0_4", "kep_temp0_5", "kep_temp1", "kep_temp2", "kep_tempe", "kep_templ", "kep_ts", "kep_u", "kep_uk",
   "kep_xinc", "kep_xlt", "kep_xmp_1", "kep_xmp_2", "kep_xnode", "kep_xnodek", "nr_capu_init", "nr_epw_init",
   "nr_first_cosEPW", "nr_first_ecosE", "nr_first_esinE", "nr_first_exit", "nr_first_next_cosEPW",
   "nr_first_next_ecosE", "nr_first_next_esinE", "nr_first_next_sinEPW", "nr_first_sinEPW", "nr_later_cosEPW",
   "nr_later_ecosE", "nr_later_esinE", "nr_later_exit", "nr_later_next_cosEPW", "nr_later_next_ecosE",
   "nr_later_next_esinE", "nr_later_next_sinEPW", "nr_later_sinEPW", "oe_arg_perigee", "oe_bstar",
   "oe_calculate_mean_motion_and_semi_major_axis_r0", "oe_calculate_mean_motion_and_semi_major_axis_r1",
   "oe_excentricity", "oe_inclination", "oe_mean_anomaly", "oe_mean_motion", "oe_mean_motion_derivative",
   "oe_mean_motion_sec_derivative", "oe_original_mean_motion", "oe_outcome", "oe_perigee", "oe_period",
   "oe_right_ascension", "oe_right_ascension_lon_1", "oe_right_ascension_lon_2", "oe_right_ascension_lon_2_stored",
   "oe_semi_major_axis"]
    := by rfl

end PV.Equiv.Sgp4
