/-
  PV.Equiv.TranslatedCollection — tie T-D for C10 (reading a platform from a collection): the translations of
  `_merge_tle_from_two_lines`, `_decode_lines`, `_get_tles_from_url`, `_get_tles_from_uris`, `_get_first_tle` are the
  model functions `PV.Collection.decodeLines / firstTle / scanAll / allTlesSources`, for every ASCII source.

  A source is the list of lines its iterator yields (`uri_open` is a parameter; `_decode` is instantiated with the
  identity: the lines are text).  `SATELLITES` is the registry `cfg.reg`.  ASCII: the model's `strip` is the ASCII one.
-/
import PV.Equiv.TranslatedInit
import PV.Model.Collection
set_option linter.unusedSimpArgs false
set_option linter.unusedVariables false
set_option linter.unusedSectionVars false

namespace PV.Equiv.TranslatedCollection
open PV.Py PV.Gen.T PV.Collection PV.Equiv.TL

/-- the model's configuration for a call with these arguments -/
def cfgOf (sat : Dict Str Str) (platform : Str) (dummy : Bool) : Cfg :=
  { platform := platform, reg := dictGet? sat, dummy := dummy }

theorem startswith_eq : ∀ (s p : List Char), Py.startswith s p = Text.startsWith s p
  | _, [] => by simp [Py.startswith, Text.startsWith]
  | [], _ :: _ => rfl
  | c :: cs, q :: qs => by
    have ih := startswith_eq cs qs
    simp only [Py.startswith] at ih ⊢
    simp only [List.isPrefixOf, Text.startsWith, ih]
    by_cases h : q = c
    · subst h; simp
    · have h' : ¬ c = q := fun e => h e.symm
      have h1 : (q == c) = false := by simpa using h
      have h2 : (c == q) = false := by simpa using h'
      rw [h1, h2]

def AsciiAll (ls : List Line) : Prop := ∀ l ∈ ls, Ascii l

/-- what each model `Step` means for the real call: the returned string and the iterator afterwards, or the exception -/
def stepResult (fid : List Line) : Step → M (Str × List Line)
  | .stop => Except.error Exc.StopIteration
  | .logKeyError => Except.error Exc.KeyError
  | .hit a b used => Except.ok (a ++ '\n' :: b, fid.drop used)
  | .miss => Except.ok ([], fid)

theorem merge_eq (a b : Str) (ha : Ascii a) (hb : Ascii b) :
    _merge_tle_from_two_lines a b = Except.ok (Text.strip a ++ '\n' :: Text.strip b) := by
  unfold _merge_tle_from_two_lines
  simp [strip_ascii ha, strip_ascii hb]

/-- **C10 tie (one step).**  `_decode_lines(fid, l_0, platform, only_first, open_is_dummy)` as the source has it now is the
    model's `decodeLines` -/
theorem decode_lines_eq (sat : Dict Str Str) (fid : List Line) (l0 platform : Str) (onlyFirst dummy : Bool)
    (h0 : Ascii l0) (hf : AsciiAll fid) :
    _decode_lines (SATELLITES := sat) (decode_ := fun (l : Line) => (Except.ok l : M Str)) fid l0 platform onlyFirst dummy =
      stepResult fid (decodeLines (cfgOf sat platform dummy) onlyFirst l0 fid) := by
  unfold _decode_lines decodeLines cfgOf designator
  simp only [ok_bind, pure_eq, truthy, startswith_eq, strip_ascii h0, dictGetD, dictHas]
  by_cases hp : (!platform.isEmpty && Text.strip l0 == platform) = true
  · have hp' : (!platform.isEmpty && decide (Text.strip l0 = platform)) = true := by simpa using hp
    simp only [hp, hp', if_true]
    cases fid with
    | nil => rfl
    | cons l1 r =>
      cases r with
      | nil => rfl
      | cons l2 r2 =>
        have a1 := hf l1 (by simp)
        have a2 := hf l2 (by simp)
        simp [Py.next, merge_eq l1 l2 a1 a2, stepResult]
  · have hp' : (!platform.isEmpty && decide (Text.strip l0 = platform)) = false := by simpa using hp
    simp only [hp, hp', Bool.false_eq_true, if_false]
    by_cases hd : Text.startsWith (Text.strip l0) ('1' :: ' ' :: (dictGet? sat platform).getD []) = true
    · simp only [hd, if_true, List.cons_append, List.nil_append]
      by_cases hq : (((dictGet? sat platform).isSome || !onlyFirst) || (dummy && platform.isEmpty)) = true
      · have hq' : (((dictGet? sat platform).isSome || !onlyFirst) || (dummy && !(!platform.isEmpty))) = true := by
          simpa using hq
        simp only [hq, hq', if_true]
        cases fid with
        | nil => rfl
        | cons l2 r =>
          have a2 := hf l2 (by simp)
          simp only [Py.next, ok_bind, merge_eq l0 l2 h0 a2, pure_eq]
          rcases Option.eq_none_or_eq_some (dictGet? sat platform) with hreg | ⟨v, hreg⟩ <;>
            rcases Bool.eq_false_or_eq_true platform.isEmpty with hpe | hpe <;>
            simp [dictGetItem, hreg, hpe, stepResult]
      · have hq' : (((dictGet? sat platform).isSome || !onlyFirst) || (dummy && !(!platform.isEmpty))) = false := by
          simpa using hq
        have hq2 : (((dictGet? sat platform).isSome || !onlyFirst) || (dummy && platform.isEmpty)) = false := by
          simpa using hq
        simp only [hq', hq2, Bool.false_eq_true, if_false]
        first | rfl | (split <;> rfl)
    · have hd' : Text.startsWith (Text.strip l0) ('1' :: ' ' :: (dictGet? sat platform).getD []) = false := by
        simpa using hd
      simp only [hd', List.cons_append, List.nil_append, Bool.false_eq_true, if_false]
      first | rfl | (split <;> rfl)

/-! ### the `for l_0 in fid` loop of `_get_tles_from_url` -/

abbrev LoopState := Option (List Str) × List Line × List Str

/-- the merged string of a model entry -/
def merged (p : Line × Line) : Str := p.1 ++ '\n' :: p.2

/-- what the loop returns at the end: the early `return [tle]`, else `tles` -/
def loopResult (s : LoopState) : M (List Str) :=
  match s.1 with
  | some r => Except.ok r
  | none => Except.ok s.2.2

/-- one pass of the loop in terms of the model's `decodeLines` -/
def passOf (cfg : Cfg) (onlyFirst : Bool) (fid : List Line) (tles : List Str) : M (ForInStep LoopState) :=
  match fid with
  | [] => Except.ok (ForInStep.done (none, [], tles))
  | l0 :: rest =>
    stepResult rest (decodeLines cfg onlyFirst l0 rest) >>= fun p =>
      if p.1.isEmpty then Except.ok (ForInStep.yield (none, p.2, tles))
      else if onlyFirst then Except.ok (ForInStep.done (some [p.1], p.2, tles))
      else Except.ok (ForInStep.yield (none, p.2, tles ++ [p.1]))

theorem first_loop (cfg : Cfg) (f : Unit → LoopState → M (ForInStep LoopState)) (post : LoopState → M (List Str))
    (hf : ∀ u r fid tles, AsciiAll fid → f u (r, fid, tles) = passOf cfg true fid tles)
    (hpost : ∀ s, post s = loopResult s) :
    ∀ (n : Nat) (fid : List Line) (tles : List Str), fid.length ≤ n → AsciiAll fid →
      (forIn (List.replicate n ()) ((none, fid, tles) : LoopState) f >>= post) =
        match firstTle cfg fid with
        | .ok none => Except.ok tles
        | .ok (some p) => Except.ok [merged p]
        | .stopIteration => Except.error Exc.StopIteration
        | .logKeyError => Except.error Exc.KeyError := by
  have hp : post = loopResult := funext hpost
  subst hp
  intro n
  induction n with
  | zero =>
    intro fid tles hl ha
    have : fid = [] := List.eq_nil_of_length_eq_zero (by omega)
    subst this; rfl
  | succ n ih =>
    intro fid tles hl ha
    simp only [List.replicate_succ, List.forIn_cons, hf _ _ _ _ ha]
    cases fid with
    | nil => rfl
    | cons l0 rest =>
      simp only [passOf, firstTle]
      cases hd : decodeLines cfg true l0 rest with
      | stop => rfl
      | logKeyError => rfl
      | hit a b used => simp [stepResult, loopResult, merged]
      | miss =>
        simp only [stepResult, ok_bind, List.isEmpty_nil, if_true]
        exact ih rest tles (by simp at hl; omega) (fun l hl' => ha l (by simp [hl']))

theorem scanAll_drop (cfg : Cfg) : ∀ (k : Nat) (l : List Line), scanAll cfg k l = scanAll cfg 0 (l.drop k)
  | 0, l => by simp
  | k + 1, [] => by simp [scanAll]
  | k + 1, _ :: rest => by simp [scanAll, scanAll_drop cfg k rest]

theorem all_loop (cfg : Cfg) (f : Unit → LoopState → M (ForInStep LoopState)) (post : LoopState → M (List Str))
    (hf : ∀ u r fid tles, AsciiAll fid → f u (r, fid, tles) = passOf cfg false fid tles)
    (hpost : ∀ s, post s = loopResult s) :
    ∀ (n : Nat) (fid : List Line) (tles : List Str), fid.length ≤ n → AsciiAll fid →
      (forIn (List.replicate n ()) ((none, fid, tles) : LoopState) f >>= post) =
        match scanAll cfg 0 fid with
        | .ok ps => Except.ok (tles ++ ps.map merged)
        | .stopIteration => Except.error Exc.StopIteration
        | .logKeyError => Except.error Exc.KeyError := by
  have hp : post = loopResult := funext hpost
  subst hp
  intro n
  induction n with
  | zero =>
    intro fid tles hl ha
    have : fid = [] := List.eq_nil_of_length_eq_zero (by omega)
    subst this; simp [scanAll, loopResult]
  | succ n ih =>
    intro fid tles hl ha
    simp only [List.replicate_succ, List.forIn_cons, hf _ _ _ _ ha]
    cases fid with
    | nil => simp [passOf, scanAll, loopResult]
    | cons l0 rest =>
      have har : AsciiAll rest := fun l hl' => ha l (by simp [hl'])
      simp only [passOf, scanAll]
      cases hd : decodeLines cfg false l0 rest with
      | stop => rfl
      | logKeyError => rfl
      | hit a b used =>
        have hne : (a ++ '\n' :: b).isEmpty = false := by cases a <;> rfl
        simp only [stepResult, ok_bind, hne, Bool.false_eq_true, if_false]
        have := ih (rest.drop used) (tles ++ [a ++ '\n' :: b]) (by simp at hl ⊢; omega)
          (fun l hl' => har l (List.mem_of_mem_drop hl'))
        rw [this, scanAll_drop cfg used rest]
        cases scanAll cfg 0 (rest.drop used) <;> simp [Out.map, merged]
      | miss =>
        simp only [stepResult, ok_bind, List.isEmpty_nil, if_true]
        exact ih rest tles (by simp at hl; omega) har

/-- the body of the loop, whatever its syntactic shape, is one `passOf` -/
macro "loop_body_is_passOf" : tactic => `(tactic|
  (intro u r fid tles ha
   cases fid with
   | nil => rfl
   | cons l0 rest =>
     have h0 := ha l0 (by simp)
     have hr : AsciiAll rest := fun l hl => ha l (by simp [hl])
     simp only [List.head?_cons, List.tail_cons, decode_lines_eq _ _ _ _ _ _ h0 hr, passOf]
     cases decodeLines _ _ l0 rest <;> simp [stepResult, truthy]))

variable {IO : Type}

/-- **C10 tie (first entry).**  `_get_tles_from_url(url, open_func, platform, only_first=True)` on a source whose
    iterator yields `lines`: the model's `firstTle` -/
theorem get_tles_from_url_first (uo : FileArg IO → FnRef → M (Iter Line)) (sat : Dict Str Str) (url : FileArg IO)
    (f : FnRef) (platform : Str) (lines : List Line) (hopen : uo url f = Except.ok lines) (ha : AsciiAll lines) :
    _get_tles_from_url (uri_open := uo) (SATELLITES := sat) (decode_ := fun (l : Line) => (Except.ok l : M Str)) url f platform true =
      match firstTle (cfgOf sat platform (f == FnRef._dummy_open_stringio)) lines with
      | .ok none => Except.ok []
      | .ok (some p) => Except.ok [merged p]
      | .stopIteration => Except.error Exc.StopIteration
      | .logKeyError => Except.error Exc.KeyError := by
  unfold _get_tles_from_url
  simp only [hopen, ok_bind, iterFuel]
  refine first_loop (cfgOf sat platform (f == FnRef._dummy_open_stringio)) _ _ ?_ ?_
    lines.length lines [] (Nat.le_refl _) ha
  · loop_body_is_passOf
  · intro s; rcases s with ⟨r, a, b⟩; cases r <;> rfl

/-- **C10 tie (every entry).**  The same with `only_first=False`: the model's `scanAll` -/
theorem get_tles_from_url_all (uo : FileArg IO → FnRef → M (Iter Line)) (sat : Dict Str Str) (url : FileArg IO)
    (f : FnRef) (platform : Str) (lines : List Line) (hopen : uo url f = Except.ok lines) (ha : AsciiAll lines) :
    _get_tles_from_url (uri_open := uo) (SATELLITES := sat) (decode_ := fun (l : Line) => (Except.ok l : M Str)) url f platform false =
      match scanAll (cfgOf sat platform (f == FnRef._dummy_open_stringio)) 0 lines with
      | .ok ps => Except.ok (ps.map merged)
      | .stopIteration => Except.error Exc.StopIteration
      | .logKeyError => Except.error Exc.KeyError := by
  unfold _get_tles_from_url
  simp only [hopen, ok_bind, iterFuel]
  have key := fun g post hg hpost => all_loop (cfgOf sat platform (f == FnRef._dummy_open_stringio)) g post hg hpost
    lines.length lines [] (Nat.le_refl _) ha
  simp only [List.nil_append] at key
  refine key _ _ ?_ ?_
  · loop_body_is_passOf
  · intro s; rcases s with ⟨r, a, b⟩; cases r <;> rfl

/-- what a model `Out` stands for -/
def outResult {α β : Type} (g : α → β) : Out α → M β
  | .ok a => Except.ok (g a)
  | .stopIteration => Except.error Exc.StopIteration
  | .logKeyError => Except.error Exc.KeyError

theorem decodeLines_congr (c1 c2 : Cfg) (hp : c1.platform = c2.platform) (hr : c1.reg c1.platform = c2.reg c2.platform)
    (hd : c1.dummy = c2.dummy) (b : Bool) (l0 : Line) (rest : List Line) :
    decodeLines c1 b l0 rest = decodeLines c2 b l0 rest := by
  have hr' : c1.reg c2.platform = c2.reg c2.platform := hp ▸ hr
  unfold decodeLines designator
  rw [hp, hr', hd]

theorem scanAll_congr (c1 c2 : Cfg) (hp : c1.platform = c2.platform) (hr : c1.reg c1.platform = c2.reg c2.platform)
    (hd : c1.dummy = c2.dummy) : ∀ (n : Nat) (k : Nat) (l : List Line), l.length ≤ n → scanAll c1 k l = scanAll c2 k l := by
  intro n
  induction n with
  | zero => intro k l hl; have : l = [] := List.eq_nil_of_length_eq_zero (by omega); subst this; simp [scanAll]
  | succ n ih =>
    intro k l hl
    cases l with
    | nil => simp [scanAll]
    | cons l0 rest =>
      cases k with
      | succ k => simp only [scanAll]; exact ih k rest (by simp at hl; omega)
      | zero =>
        simp only [scanAll, decodeLines_congr c1 c2 hp hr hd]
        cases decodeLines c2 false l0 rest <;> simp [ih _ rest (by simp at hl; omega)]

/-- **C10 tie.**  `_get_first_tle((src,), open_func, platform)` / `_get_tles_from_uris(..., only_first=True)` on one source -/
theorem get_first_tle_eq (uo : FileArg IO → FnRef → M (Iter Line)) (sat : Dict Str Str) (url : FileArg IO)
    (f : FnRef) (platform : Str) (lines : List Line) (hopen : uo url f = Except.ok lines) (ha : AsciiAll lines) :
    _get_first_tle (uri_open := uo) (SATELLITES := sat) (decode_ := fun (l : Line) => (Except.ok l : M Str)) [url] f platform =
      outResult (fun o => match o with | none => [] | some p => merged p)
        (firstTle (cfgOf sat platform (f == FnRef._dummy_open_stringio)) lines) := by
  unfold _get_first_tle _get_tles_from_uris__only_first_True
  simp only [List.forIn_cons, List.forIn_nil, get_tles_from_url_first uo sat url f platform lines hopen ha, List.nil_append]
  cases firstTle (cfgOf sat platform (f == FnRef._dummy_open_stringio)) lines with
  | stopIteration => rfl
  | logKeyError => rfl
  | ok o => cases o <;> simp [outResult, truthy, Py.index]

/-- the `for url in uris: tles += ...` loop over several sources (`only_first=False`): in order, the first exception
    wins.  `us` pairs every uri with the lines its source yields. -/
theorem get_tles_from_uris_all (uo : FileArg IO → FnRef → M (Iter Line)) (sat : Dict Str Str) (f : FnRef)
    (hsat : dictGet? sat [] = none) (us : List (FileArg IO × List Line))
    (hus : ∀ p ∈ us, uo p.1 f = Except.ok p.2 ∧ AsciiAll p.2) :
    _get_tles_from_uris__only_first_False (uri_open := uo) (SATELLITES := sat) (decode_ := fun (l : Line) => (Except.ok l : M Str)) (us.map (·.1)) f [] =
      outResult (List.map merged) (allTlesSources (f == FnRef._dummy_open_stringio) (us.map (·.2))) := by
  have key : ∀ (us : List (FileArg IO × List Line)) (acc : List Str),
      (∀ p ∈ us, uo p.1 f = Except.ok p.2 ∧ AsciiAll p.2) →
      (forIn (us.map (·.1)) acc (fun url (r : List Str) => do
          let x ← _get_tles_from_url (uri_open := uo) (SATELLITES := sat) (decode_ := fun (l : Line) => (Except.ok l : M Str)) url f [] false
          pure (ForInStep.yield (r ++ x))) : M (List Str)) =
        outResult (fun ps => acc ++ List.map merged ps) (allTlesSources (f == FnRef._dummy_open_stringio) (us.map (·.2))) := by
    intro us
    induction us with
    | nil => intro acc _; simp [allTlesSources, outResult]
    | cons p ps ih =>
      intro acc h
      have hd := h p (by simp)
      simp only [List.map_cons, List.forIn_cons, get_tles_from_url_all uo sat p.1 f [] p.2 hd.1 hd.2, allTlesSources, allTles]
      have hc := scanAll_congr (cfgOf sat [] (f == FnRef._dummy_open_stringio))
        { platform := [], reg := fun _ => none, dummy := (f == FnRef._dummy_open_stringio) } rfl (by simp [cfgOf, hsat]) rfl
        p.2.length 0 p.2 (Nat.le_refl _)
      rw [hc]
      cases scanAll { platform := [], reg := fun _ => none, dummy := (f == FnRef._dummy_open_stringio) } 0 p.2 with
      | stopIteration => rfl
      | logKeyError => rfl
      | ok qs =>
        simp only [ok_bind, pure_bind]
        rw [ih _ (fun q hq => h q (by simp [hq]))]
        cases allTlesSources (f == FnRef._dummy_open_stringio) (ps.map (·.2)) <;> simp [outResult, Out.map]
  unfold _get_tles_from_uris__only_first_False
  have := key us [] hus
  simp only [List.nil_append] at this
  simp only [bind_pure]
  exact this

/-- several sources with `only_first=True` (the network case: nine URLs): EVERY source is read, also after a hit (the
    loop over `uris` has no early exit); the first exception wins; each source contributes its first entry -/
def firstsOfSources (cfg : Cfg) : List (List Line) → Out (List (Line × Line))
  | [] => .ok []
  | s :: ss =>
    match firstTle cfg s with
    | .ok o => (firstsOfSources cfg ss).map (o.toList ++ ·)
    | .stopIteration => .stopIteration
    | .logKeyError => .logKeyError

/-- `_get_first_tle(uris, open_func, platform)` over several sources: the first of the collected entries, or "" -/
theorem get_first_tle_sources (uo : FileArg IO → FnRef → M (Iter Line)) (sat : Dict Str Str) (f : FnRef) (platform : Str)
    (us : List (FileArg IO × List Line)) (hus : ∀ p ∈ us, uo p.1 f = Except.ok p.2 ∧ AsciiAll p.2) :
    _get_first_tle (uri_open := uo) (SATELLITES := sat) (decode_ := fun (l : Line) => (Except.ok l : M Str)) (us.map (·.1)) f platform =
      outResult (fun ps => match ps with | [] => [] | p :: _ => merged p)
        (firstsOfSources (cfgOf sat platform (f == FnRef._dummy_open_stringio)) (us.map (·.2))) := by
  have key : ∀ (us : List (FileArg IO × List Line)) (acc : List Str),
      (∀ p ∈ us, uo p.1 f = Except.ok p.2 ∧ AsciiAll p.2) →
      (forIn (us.map (·.1)) acc (fun url (r : List Str) => do
          let x ← _get_tles_from_url (uri_open := uo) (SATELLITES := sat) (decode_ := fun (l : Line) => (Except.ok l : M Str)) url f platform true
          pure (ForInStep.yield (r ++ x))) : M (List Str)) =
        outResult (fun ps => acc ++ List.map merged ps)
          (firstsOfSources (cfgOf sat platform (f == FnRef._dummy_open_stringio)) (us.map (·.2))) := by
    intro us
    induction us with
    | nil => intro acc _; simp [firstsOfSources, outResult]
    | cons p ps ih =>
      intro acc h
      have hd := h p (by simp)
      simp only [List.map_cons, List.forIn_cons, get_tles_from_url_first uo sat p.1 f platform p.2 hd.1 hd.2,
        firstsOfSources]
      cases firstTle (cfgOf sat platform (f == FnRef._dummy_open_stringio)) p.2 with
      | stopIteration => rfl
      | logKeyError => rfl
      | ok o =>
        simp only [ok_bind, pure_bind]
        cases o with
        | none =>
          simp only [ok_bind, pure_bind, List.append_nil]
          rw [ih _ (fun q hq => h q (by simp [hq]))]
          cases firstsOfSources (cfgOf sat platform (f == FnRef._dummy_open_stringio)) (ps.map (·.2)) <;>
            simp [outResult, Out.map]
        | some q =>
          simp only [ok_bind, pure_bind]
          rw [ih _ (fun q hq => h q (by simp [hq]))]
          cases firstsOfSources (cfgOf sat platform (f == FnRef._dummy_open_stringio)) (ps.map (·.2)) <;>
            simp [outResult, Out.map]
  unfold _get_first_tle _get_tles_from_uris__only_first_True
  have := key us [] hus
  simp only [List.nil_append] at this
  simp only [this]
  cases firstsOfSources (cfgOf sat platform (f == FnRef._dummy_open_stringio)) (us.map (·.2)) with
  | stopIteration => rfl
  | logKeyError => rfl
  | ok ps =>
    cases ps with
    | nil => rfl
    | cons q qs => simp [outResult, truthy, Py.index]

/-! ### `Tle._read_tle` from one source -/

theorem decodeLines_hit_mem (cfg : Cfg) (b : Bool) (l0 : Line) (rest : List Line) (x y : Line) (k : Nat)
    (h : decodeLines cfg b l0 rest = .hit x y k) :
    ∃ l1 ∈ l0 :: rest, ∃ l2 ∈ l0 :: rest, x = Text.strip l1 ∧ y = Text.strip l2 := by
  unfold decodeLines at h
  split at h
  · cases rest with
    | nil => simp at h
    | cons l1 r =>
      cases r with
      | nil => simp at h
      | cons l2 r2 =>
        simp only [Step.hit.injEq] at h
        exact ⟨l1, by simp, l2, by simp, h.1.symm, h.2.1.symm⟩
  · split at h
    · split at h
      · cases rest with
        | nil => simp at h
        | cons l2 r =>
          simp only at h
          split at h
          · simp at h
          · simp only [Step.hit.injEq] at h
            exact ⟨l0, by simp, l2, by simp, h.1.symm, h.2.1.symm⟩
      · simp at h
    · simp at h

theorem firstTle_mem (cfg : Cfg) : ∀ (lines : List Line) (x y : Line), firstTle cfg lines = .ok (some (x, y)) →
    ∃ l1 ∈ lines, ∃ l2 ∈ lines, x = Text.strip l1 ∧ y = Text.strip l2
  | [], _, _, h => by simp [firstTle] at h
  | l0 :: rest, x, y, h => by
    simp only [firstTle] at h
    cases hd : decodeLines cfg true l0 rest with
    | stop => simp [hd] at h
    | logKeyError => simp [hd] at h
    | hit a b k =>
      simp only [hd, Out.ok.injEq, Option.some.injEq, Prod.mk.injEq] at h
      obtain ⟨l1, h1, l2, h2, e1, e2⟩ := decodeLines_hit_mem cfg true l0 rest a b k hd
      exact ⟨l1, h1, l2, h2, h.1 ▸ e1, h.2 ▸ e2⟩
    | miss =>
      simp only [hd] at h
      obtain ⟨l1, h1, l2, h2, e⟩ := firstTle_mem cfg rest x y h
      exact ⟨l1, by simp [h1], l2, by simp [h2], e⟩

variable {F T : Type}

/-- what each model `ReadOutcome` stands for -/
def readResult (self : Tle.Self F IO T) : ReadOutcome → M (Tle.Self F IO T)
  | .tle a b => Except.ok { self with _line1 := some a, _line2 := some b }
  | .keyError => Except.error Exc.KeyError
  | .stopIteration => Except.error Exc.StopIteration
  | .logKeyError => Except.error Exc.KeyError

/-- **C10 tie, composed.**  `Tle._read_tle` reading from one source (a line is not given; `_get_uris_and_open_func`
    answered with this one source): the model's `readTle`.  Lines of an iterator hold no line break except at their end. -/
theorem read_tle_eq_readTle (gu : FileArg IO → M (List (FileArg IO) × FnRef)) (uo : FileArg IO → FnRef → M (Iter Line))
    (sat : Dict Str Str) (self : Tle.Self F IO T) (url : FileArg IO) (f : FnRef) (lines : List Line)
    (h : self._line1 = none ∨ self._line2 = none) (hgu : gu self._tle_file = Except.ok ([url], f))
    (hopen : uo url f = Except.ok lines) (ha : AsciiAll lines) (hn : ∀ l ∈ lines, '\n' ∉ Text.strip l) :
    Tle._read_tle (get_uris_and_open_func := gu) (get_first_tle := _get_first_tle (uri_open := uo) (SATELLITES := sat) (decode_ := fun (l : Line) => (Except.ok l : M Str))) self =
      readResult self (readTle (cfgOf sat self._platform (f == FnRef._dummy_open_stringio)) lines) := by
  rw [TranslatedInit.read_tle_source gu _ self h, hgu]
  simp only [ok_bind, get_first_tle_eq uo sat url f self._platform lines hopen ha, readTle]
  cases hft : firstTle (cfgOf sat self._platform (f == FnRef._dummy_open_stringio)) lines with
  | stopIteration => rfl
  | logKeyError => rfl
  | ok o =>
    cases o with
    | none => rfl
    | some p =>
      obtain ⟨a, b⟩ := p
      obtain ⟨l1, h1, l2, h2, e1, e2⟩ := firstTle_mem _ lines a b hft
      have na : '\n' ∉ a := e1 ▸ hn l1 h1
      have nb : '\n' ∉ b := e2 ▸ hn l2 h2
      have hne : (a ++ '\n' :: b).isEmpty = false := by cases a <;> rfl
      simp only [outResult, merged, ok_bind, hne, Bool.false_eq_true, if_false, splitChar_two na nb, unpack2, pure_eq, readResult]

end PV.Equiv.TranslatedCollection
