/-
  PV.NumReal — the ℝ reading of `Num`, and the `rfl` bridge lemmas that turn a
  generic model term into ordinary Mathlib notation.

  atan2 y x is `Complex.arg ⟨x, y⟩` (range (-π, π], the numpy convention).
  Python's `%` is `x - y * ⌊x / y⌋`; C's fmod is `x - y * trunc (x / y)`.
  Comparisons are the classical decidable order on ℝ.
-/
import PV.Num
import Mathlib.Analysis.SpecialFunctions.Trigonometric.Arctan
import Mathlib.Analysis.SpecialFunctions.Trigonometric.Inverse
import Mathlib.Analysis.SpecialFunctions.Complex.Arg
import Mathlib.Analysis.SpecialFunctions.Pow.Real
import Mathlib.Analysis.SpecialFunctions.Sqrt

namespace PV
open Classical

noncomputable def realSign (x : ℝ) : ℝ := if 0 < x then 1 else if x < 0 then -1 else 0
noncomputable def realTrunc (x : ℝ) : ℝ := if 0 ≤ x then (⌊x⌋ : ℝ) else (⌈x⌉ : ℝ)

noncomputable instance instNumReal : Num ℝ where
  add := (· + ·)
  sub := (· - ·)
  mul := (· * ·)
  div := (· / ·)
  neg := (- ·)
  ofNat n := (n : ℝ)
  ofSci m s e := (OfScientific.ofScientific m s e : ℝ)
  sqrt := Real.sqrt
  sin := Real.sin
  cos := Real.cos
  tan := Real.tan
  asin := Real.arcsin
  acos := Real.arccos
  atan := Real.arctan
  atan2 y x := Complex.arg ⟨x, y⟩
  abs x := |x|
  floor x := (⌊x⌋ : ℝ)
  sign := realSign
  rpow := Real.rpow
  fmod x y := x - y * realTrunc (x / y)
  pymod x y := x - y * (⌊x / y⌋ : ℝ)
  pi := Real.pi
  lt a b := decide (a < b)
  le a b := decide (a ≤ b)

section bridge
variable (a b : ℝ)

@[simp] theorem r_add : @HAdd.hAdd ℝ ℝ ℝ (@instHAdd ℝ (Num.toAdd)) a b = a + b := rfl
@[simp] theorem r_sub : @HSub.hSub ℝ ℝ ℝ (@instHSub ℝ (Num.toSub)) a b = a - b := rfl
@[simp] theorem r_mul : @HMul.hMul ℝ ℝ ℝ (@instHMul ℝ (Num.toMul)) a b = a * b := rfl
@[simp] theorem r_div : @HDiv.hDiv ℝ ℝ ℝ (@instHDiv ℝ (Num.toDiv)) a b = a / b := rfl
@[simp] theorem r_neg : @Neg.neg ℝ (Num.toNeg) a = -a := rfl
@[simp] theorem r_ofNat (n : Nat) : @OfNat.ofNat ℝ n instOfNatNum = (n : ℝ) := rfl
@[simp] theorem r_ofNat' (n : Nat) : (Num.ofNat n : ℝ) = (n : ℝ) := rfl
@[simp] theorem r_ofSci (m : Nat) (s : Bool) (e : Nat) :
    @OfScientific.ofScientific ℝ instOfScientificNum m s e = (OfScientific.ofScientific m s e : ℝ) := rfl
@[simp] theorem r_sqrt : Num.sqrt a = Real.sqrt a := rfl
@[simp] theorem r_sin : Num.sin a = Real.sin a := rfl
@[simp] theorem r_cos : Num.cos a = Real.cos a := rfl
@[simp] theorem r_tan : Num.tan a = Real.tan a := rfl
@[simp] theorem r_asin : Num.asin a = Real.arcsin a := rfl
@[simp] theorem r_acos : Num.acos a = Real.arccos a := rfl
@[simp] theorem r_atan : Num.atan a = Real.arctan a := rfl
@[simp] theorem r_atan2 : Num.atan2 a b = Complex.arg ⟨b, a⟩ := rfl
@[simp] theorem r_abs : Num.abs a = |a| := rfl
@[simp] theorem r_floor : Num.floor a = (⌊a⌋ : ℝ) := rfl
@[simp] theorem r_sign : Num.sign a = realSign a := rfl
@[simp] theorem r_rpow : Num.rpow a b = a ^ b := rfl
@[simp] theorem r_fmod : Num.fmod a b = a - b * realTrunc (a / b) := rfl
@[simp] theorem r_pymod : Num.pymod a b = a - b * (⌊a / b⌋ : ℝ) := rfl
@[simp] theorem r_pi : (Num.pi : ℝ) = Real.pi := rfl
@[simp] theorem r_lt : Num.lt a b = decide (a < b) := rfl
@[simp] theorem r_le : Num.le a b = decide (a ≤ b) := rfl
@[simp] theorem r_gt : Num.gt a b = decide (b < a) := rfl
@[simp] theorem r_ge : Num.ge a b = decide (b ≤ a) := rfl
@[simp] theorem r_sq : Num.sq a = a ^ 2 := by unfold Num.sq; rw [r_mul]; ring
@[simp] theorem r_cube : Num.cube a = a ^ 3 := by unfold Num.cube; rw [r_mul, r_mul]; ring
@[simp] theorem r_pow4 : Num.pow4 a = a ^ 4 := by unfold Num.pow4; rw [r_mul, r_mul]; ring
@[simp] theorem r_deg2rad : Num.deg2rad a = a * (Real.pi / 180) := by
  unfold Num.deg2rad; rw [r_mul, r_div, r_pi, r_ofNat]
@[simp] theorem r_rad2deg : Num.rad2deg a = a * (180 / Real.pi) := by
  unfold Num.rad2deg; rw [r_mul, r_div, r_pi, r_ofNat]
@[simp] theorem r_twoPi : (Num.twoPi : ℝ) = 2 * Real.pi := by
  unfold Num.twoPi; rw [r_mul, r_pi, r_ofNat]
@[simp] theorem r_sel (c : Bool) : Num.sel c a b = if c then a else b := rfl
end bridge

end PV
