/-
  PV.NumFloat — the executable reading: IEEE binary64 with the C library's
  elementary functions (the same ones numpy calls for float64 scalars up to
  ulp-level differences, which the correspondence tolerance absorbs).
  `fmod` and Python's `%` are implemented exactly (integer arithmetic on the
  decoded mantissa/exponent), as C and CPython compute them.
-/
import PV.Num
namespace PV

/-- decode a finite double as `m * 2^e` with integer `m` -/
def floatDecode (x : Float) : Int × Int :=
  let b := x.toBits
  let sign : Int := if (b >>> 63) == 1 then -1 else 1
  let ex : Nat := ((b >>> 52) &&& 0x7FF).toNat
  let fr : Nat := (b &&& 0xFFFFFFFFFFFFF).toNat
  if ex == 0 then (sign * fr, -1074) else (sign * (fr + 2^52), (ex : Int) - 1075)

/-- C `fmod x y` (exact; sign of the dividend) -/
def floatFmod (x y : Float) : Float :=
  if x.isNaN || y.isNaN || x.isInf || y == 0 then (0.0 / 0.0 : Float)
  else if y.isInf then x
  else if x == 0 then x
  else
    let (mx, ex) := floatDecode x
    let (my, ey) := floatDecode y
    let e := if ex < ey then ex else ey
    let X : Int := mx * (2 : Int) ^ (ex - e).toNat
    let Y : Int := my * (2 : Int) ^ (ey - e).toNat
    let R : Int := Int.tmod X Y
    if R == 0 then (if x < 0 then -0.0 else 0.0)
    else (Float.ofInt R).scaleB e

/-- Python / numpy float `%` (sign of the divisor) -/
def floatPyMod (x y : Float) : Float :=
  let m := floatFmod x y
  if m.isNaN then m
  else if m != 0 then (if (y < 0) != (m < 0) then m + y else m)
  else (if y < 0 then -0.0 else 0.0)

@[inline] def floatSign (x : Float) : Float :=
  if x > 0 then 1.0 else if x < 0 then -1.0 else if x == 0 then 0.0 else x  -- nan ↦ nan

instance : Num Float where
  ofNat n := Float.ofNat n
  ofSci m s e := Float.ofScientific m s e
  sqrt := Float.sqrt
  sin := Float.sin
  cos := Float.cos
  tan := Float.tan
  asin := Float.asin
  acos := Float.acos
  atan := Float.atan
  atan2 := Float.atan2
  abs := Float.abs
  floor := Float.floor
  sign := floatSign
  rpow := Float.pow
  fmod := floatFmod
  pymod := floatPyMod
  pi := 3.141592653589793
  lt a b := a < b
  le a b := a ≤ b

end PV
