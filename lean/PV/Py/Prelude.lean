/-
  PV.Py.Prelude — the Python value semantics that the translated discrete code of pyorbital needs
  (tie T-D: harness/pytrans.py translates whitelisted functions of /repo statement by statement into Lean
  `do` blocks over these definitions; PV/Generated/Translated.lean).  Hand-written, core Lean only.

  * `str` is `List Char` (`Str`).  A Lean `Char` is a Unicode scalar value, so lone surrogates (which a Python
    `str` may hold) are outside the value space.
  * an exception is a value of `Exc` (its class; the message is not kept); a Python computation is `Except Exc α`.
  * the character classes (`str.isspace`, `str.isdecimal`, `str.isdigit`, the whitespace `int()` strips,
    `str.upper`) come from PV/Generated/PyUnicode.lean, which harness/pytrans.py writes from the `unicodedata`
    of the interpreter that runs pyorbital; they are right for all of Unicode, not only for ASCII.
-/
import PV.Generated.PyUnicode
namespace PV.Py

abbrev Str := List Char

/-- exception classes.  `named q`: a class defined in the translated module (directly derived from `Exception`)
    or raised by an external parameter, by qualified name.  `except K` matches by equality: the translator
    refuses a handler whose class has a proper subclass that the guarded code can raise. -/
inductive Exc
  | ValueError | IndexError | KeyError | TypeError | AttributeError | StopIteration | OSError | ZeroDivisionError
  | named (qualname : String)
  /-- not a Python exception: the translation reached an operation whose Python meaning the prelude does not define
      (e.g. `sub in stream`).  A theorem "translation = model" whose model side never yields it proves it unreachable. -/
  | unmodelled
  /-- not a Python exception: a `while` loop was still running when the fuel the translation gives it ran out -/
  | outOfFuel
deriving DecidableEq, Repr, Inhabited

abbrev M := Except Exc

/-! ### character classes (tables generated from `unicodedata`) -/

def isspaceN (n : Nat) : Bool := Gen.U.whitespace.contains n
def isIntSpaceN (n : Nat) : Bool := Gen.U.intWhitespace.contains n
def decimalValueN (n : Nat) : Option Nat :=
  (Gen.U.decimalZeros.find? (fun z => z ≤ n && n < z + 10)).map (n - ·)
def isdigitN (n : Nat) : Bool :=
  (decimalValueN n).isSome || Gen.U.digitOtherRanges.any (fun r => r.1 ≤ n && n ≤ r.2)

/-- `c.isspace()` = what `str.strip()` and `str.split()` treat as whitespace -/
def isspace (c : Char) : Bool := isspaceN c.toNat

/-- the whitespace `int(s)` / `float(s)` strip (the ASCII separators 0x1c–0x1f are *not* among them) -/
def isIntSpace (c : Char) : Bool := isIntSpaceN c.toNat

/-- value of a Unicode decimal digit (category Nd): every such digit lies in a run of ten starting at a zero -/
def decimalValue (c : Char) : Option Nat := decimalValueN c.toNat

def isdecimalChar (c : Char) : Bool := (decimalValue c).isSome

/-- `c.isdigit()`: decimal digits and the other characters with a digit value (superscripts, circled digits ...) -/
def isdigitChar (c : Char) : Bool := isdigitN c.toNat

/-- `s.isdigit()` -/
def isdigit (s : Str) : Bool := !s.isEmpty && s.all isdigitChar

/-- `c.upper()` (full case mapping: one character may become several) -/
def upperChar (c : Char) : Str :=
  match Gen.U.upperSpecial.find? (fun e => e.1 == c.toNat) with
  | some e => e.2.map Char.ofNat
  | none =>
    match Gen.U.upperRanges.find? (fun r => r.1 ≤ c.toNat && c.toNat ≤ r.2.1) with
    | some r => [Char.ofNat (r.2.2 + (c.toNat - r.1))]
    | none => [c]

/-- `s.upper()` -/
def upper (s : Str) : Str := s.flatMap upperChar

/-! ### str / list operations -/

/-- `s.strip()` -/
def strip (s : Str) : Str := ((s.dropWhile isspace).reverse.dropWhile isspace).reverse

/-- a slice bound against length `n`: negative counts from the end, everything is clamped to `[0, n]` -/
def bound (n : Nat) (i : Int) : Nat := if i < 0 then (i + n).toNat else min i.toNat n

/-- `s[lo:hi]` (step 1); `none` = bound omitted -/
def slice {α : Type} (s : List α) (lo hi : Option Int) : List α :=
  let a := match lo with | none => 0 | some i => bound s.length i
  let b := match hi with | none => s.length | some i => bound s.length i
  (s.take b).drop a

/-- `s[i]`: IndexError outside `[-n, n)` -/
def index {α : Type} (s : List α) (i : Int) : M α :=
  let j : Int := if i < 0 then i + s.length else i
  if j < 0 then throw .IndexError else
  match s[j.toNat]? with
  | some a => pure a
  | none => throw .IndexError

/-- `s.split(sep)` for a one-character separator -/
def splitChar (sep : Char) : Str → List Str
  | [] => [[]]
  | c :: cs =>
    if c = sep then [] :: splitChar sep cs
    else match splitChar sep cs with
      | h :: t => (c :: h) :: t
      | [] => [[c]]

/-- `s.split()`: maximal runs of non-whitespace -/
def splitWsAux : Str → Str → List Str
  | [], cur => if cur.isEmpty then [] else [cur.reverse]
  | c :: cs, cur =>
    if isspace c then (if cur.isEmpty then splitWsAux cs [] else cur.reverse :: splitWsAux cs [])
    else splitWsAux cs (c :: cur)
def splitWs (s : Str) : List Str := splitWsAux s []

/-- `sep.join(parts)` -/
def join (sep : Str) : List Str → Str
  | [] => []
  | [x] => x
  | x :: y :: r => x ++ sep ++ join sep (y :: r)

/-- `sep.join(xs)` when an item may be None (TypeError, whatever its position) -/
def joinOpt (sep : Str) (xs : List (Option Str)) : M Str :=
  if xs.all Option.isSome then pure (join sep (xs.filterMap id)) else throw Exc.TypeError

/-- `s.startswith(p)` -/
def startswith (s p : Str) : Bool := p.isPrefixOf s

/-- `sub in s` for two `str` -/
def contains (sub : Str) : Str → Bool
  | [] => sub.isEmpty
  | c :: cs => sub.isPrefixOf (c :: cs) || contains sub cs

/-- `a, b = xs`: ValueError unless exactly two items -/
def unpack2 {α : Type} : List α → M (α × α)
  | [a, b] => pure (a, b)
  | _ => throw .ValueError

/-- an operation other than attribute access applied to a value that may be `None` (`None[0]`, `None + s`): TypeError -/
def need {α : Type} : Option α → M α
  | some a => pure a
  | none => throw .TypeError

/-- attribute access / method call on a value that may be `None` (`None.strip()`): AttributeError -/
def needAttr {α : Type} : Option α → M α
  | some a => pure a
  | none => throw .AttributeError

/-- a `tle_file` argument: `None`, a path (`str`) or an `io.StringIO` object -/
inductive FileArg (IO : Type)
  | none
  | path (s : Str)
  | io (f : IO)
deriving Repr

def FileArg.isNone {IO : Type} : FileArg IO → Bool | .none => true | _ => false
/-- `isinstance(x, io.StringIO)` -/
def FileArg.isIO {IO : Type} : FileArg IO → Bool | .io _ => true | _ => false
/-- `isinstance(x, str)` -/
def FileArg.isPath {IO : Type} : FileArg IO → Bool | .path _ => true | _ => false

/-- a `tle_file` passed where the callee needs a path; for None or a stream the callee's behaviour is not modelled -/
def FileArg.asPath {IO : Type} : FileArg IO → M Str
  | .path s => pure s
  | _ => throw .unmodelled

/-- `sub in x`: TypeError on None, substring test on a str; on a stream Python would consume its lines: not modelled -/
def strInFileArg {IO : Type} (sub : Str) : FileArg IO → M Bool
  | .none => throw .TypeError
  | .path s => pure (contains sub s)
  | .io _ => throw .unmodelled

/-- reading a local that may be unbound on the path taken: UnboundLocalError -/
def boundLocal {α : Type} : Option α → M α
  | some a => pure a
  | none => throw (.named "UnboundLocalError")

/-! ### truthiness -/
class Truthy (α : Type) where
  truthy : α → Bool
export Truthy (truthy)
instance : Truthy Bool := ⟨id⟩
instance : Truthy Int := ⟨fun i => i != 0⟩
instance {α : Type} : Truthy (List α) := ⟨fun l => !l.isEmpty⟩
/-- `None` and `""` are false; an object without `__bool__`/`__len__` (a stream) is true -/
instance {IO : Type} : Truthy (FileArg IO) := ⟨fun x => match x with | .none => false | .path s => !s.isEmpty | .io _ => true⟩
instance {α : Type} [Truthy α] : Truthy (Option α) := ⟨fun o => match o with | some a => truthy a | none => false⟩

/-! ### int -/

/-- `a % b` on `int`: the result has the sign of the divisor -/
def mod (a b : Int) : M Int := if b = 0 then throw .ZeroDivisionError else pure (Int.fmod a b)

/-- `a // b` on `int` -/
def floordiv (a b : Int) : M Int := if b = 0 then throw .ZeroDivisionError else pure (Int.fdiv a b)

/-- decimal digits, single underscores allowed between digits; `seen` = the previous character was a digit -/
def intDigits : Bool → List Nat → Str → Option (List Nat)
  | seen, acc, [] => if seen then some acc.reverse else none
  | seen, acc, c :: cs =>
    if c = '_' then (if seen then intDigits false acc cs else none)
    else match decimalValue c with
      | some v => intDigits true (v :: acc) cs
      | none => none

/-- `sys.get_int_max_str_digits()` default -/
def intMaxStrDigits : Nat := 4300

/-- `int(s)` for a `str` (base 10): `[ws] [+-] d (_? d)* [ws]` with any Unicode decimal digits;
    more than 4300 digits: ValueError -/
def int (s : Str) : M Int :=
  let t := ((s.dropWhile isIntSpace).reverse.dropWhile isIntSpace).reverse
  let (neg, body) : Bool × Str := match t with
    | '-' :: r => (true, r)
    | '+' :: r => (false, r)
    | r => (false, r)
  match intDigits false [] body with
  | none => throw .ValueError
  | some ds =>
    if ds.length > intMaxStrDigits then throw .ValueError else
    let v : Int := (ds.foldl (fun a d => a * 10 + d) 0 : Nat)
    pure (if neg then -v else v)

/-! ### dict (insertion ordered) -/
abbrev Dict (κ ν : Type) := List (κ × ν)

def dictGet? {κ ν : Type} [DecidableEq κ] (d : Dict κ ν) (k : κ) : Option ν :=
  match d with
  | [] => none
  | (k', v) :: r => if k' = k then some v else dictGet? r k

/-- `d[k]` -/
def dictGetItem {κ ν : Type} [DecidableEq κ] (d : Dict κ ν) (k : κ) : M ν :=
  match dictGet? d k with
  | some v => pure v
  | none => throw .KeyError

/-- `d.get(k, dflt)` -/
def dictGetD {κ ν : Type} [DecidableEq κ] (d : Dict κ ν) (k : κ) (dflt : ν) : ν := (dictGet? d k).getD dflt

/-- `k in d` -/
def dictHas {κ ν : Type} [DecidableEq κ] (d : Dict κ ν) (k : κ) : Bool := (dictGet? d k).isSome

/-- `d[k] = v` -/
def dictSet {κ ν : Type} [DecidableEq κ] (d : Dict κ ν) (k : κ) (v : ν) : Dict κ ν :=
  match d with
  | [] => [(k, v)]
  | (k', v') :: r => if k' = k then (k, v) :: r else (k', v') :: dictSet r k v

/-! ### builtins -/

/-- `dict(pairs)`: a NEW dict; a later pair with the same key overwrites the value (the key keeps its place) -/
def dictOfPairs {κ ν : Type} [DecidableEq κ] (ps : List (κ × ν)) : Dict κ ν :=
  ps.foldl (fun d p => dictSet d p.1 p.2) []

/-- the loop of `max(xs, key=key)`: a later item replaces the current best only when its key is strictly larger -/
def maxLoop {α κ : Type} [LT κ] [DecidableLT κ] (key : α → κ) (best : α) : List α → α
  | [] => best
  | y :: ys => if key best < key y then maxLoop key y ys else maxLoop key best ys

/-- `max(xs, key=key)`: ValueError on an empty sequence -/
def maxByKey {α κ : Type} [LT κ] [DecidableLT κ] (key : α → κ) : List α → M α
  | [] => throw .ValueError
  | x :: xs => pure (maxLoop key x xs)

/-- the part of a `requests.Response` the translated code reads -/
structure Response where
  status_code : Int
  text : Str
deriving Repr, Inhabited, DecidableEq

/-! ### iterators: the remaining items; `next` and `for` only ever shorten them -/
abbrev Iter (α : Type) := List α

/-- `next(it)` -/
def next {α : Type} : Iter α → M (α × Iter α)
  | [] => throw .StopIteration
  | a :: r => pure (a, r)

/-- an upper bound on the number of passes of `for x in it` (every pass takes at least one item) -/
def iterFuel {α : Type} (it : Iter α) : List Unit := List.replicate it.length ()

/-- what a downloader method of `tlefile.Downloader` delivers: a dict source name -> entries (`fetch_plain_tle`) or a
    list of entries; `isinstance(x, dict)` tells them apart -/
inductive Fetched (E : Type)
  | bySource (d : Dict Str (List E))
  | plain (l : List E)

def Fetched.isDict {E : Type} : Fetched E → Bool
  | .bySource _ => true
  | .plain _ => false

/-- the value inside the branch `isinstance(x, dict)` -/
def Fetched.dict {E : Type} : Fetched E → Dict Str (List E)
  | .bySource d => d
  | .plain _ => []

/-- the value inside the other branch -/
def Fetched.list {E : Type} : Fetched E → List E
  | .plain l => l
  | .bySource _ => []

/-! ### float arithmetic is not interpreted: the operations the translated code applies to floats -/
class FloatOps (F : Type) where
  /-- an `int` operand of a float operation -/
  ofInt : Int → F
  /-- `b ** e` for `int` b and a negative `int` literal e (a float) -/
  intPow : Int → Int → F
  mul : F → F → F
  sub : F → F → F

/-- further float operations of the translated orbital code (uninterpreted, like `FloatOps`) -/
class FloatArith (F : Type) where
  add : F → F → F
  div : F → F → F
  /-- `x ** n` for a non-negative `int` literal n -/
  powNat : F → Nat → F
  /-- `np.abs(x)` / `abs(x)` -/
  abs : F → F
  /-- `a > b` (false when a NaN is involved) -/
  gt : F → F → Bool
  /-- `a < b` -/
  lt : F → F → Bool
  /-- `a <= b` -/
  le : F → F → Bool
  /-- `a >= b` -/
  ge : F → F → Bool
  /-- `max(a, b)`: `b if b > a else a` (an `int` operand is held as the float of the same value) -/
  max : F → F → F
  /-- `min(a, b)`: `b if b < a else a` -/
  min : F → F → F
  /-- a float literal of the source: the decimal `mantissa * 10 ^ exponent` written there -/
  lit : Nat → Int → F
  /-- `int(x)`: truncation toward zero (ValueError / OverflowError on nan / inf are not modelled) -/
  toInt : F → Int

/-- inside `with np.errstate(invalid="raise")`: whether numpy signals `invalid` for an arithmetic operation on these
    operands (inf - inf, 0 * inf, 0 / 0, ...; never for two Python floats, whose arithmetic does not consult the numpy
    error state).  Uninterpreted, like the operations themselves.  (Comparisons, `abs`, `min`, `max` do not signal;
    overflow and division of a non-zero number by zero are other flags.) -/
class FloatInvalid (F : Type) where
  add : F → F → Bool
  sub : F → F → Bool
  mul : F → F → Bool
  div : F → F → Bool
  powNat : F → Nat → Bool

/-! the float operations inside `with np.errstate(invalid="raise")` -/
namespace Fp
variable {F : Type} [FloatOps F] [FloatArith F] [FloatInvalid F]
def chk (invalid : Bool) (v : F) : M F := if invalid then throw (Exc.named "FloatingPointError") else pure v
def add (a b : F) : M F := chk (FloatInvalid.add a b) (FloatArith.add a b)
def sub (a b : F) : M F := chk (FloatInvalid.sub a b) (FloatOps.sub a b)
def mul (a b : F) : M F := chk (FloatInvalid.mul a b) (FloatOps.mul a b)
def div (a b : F) : M F := chk (FloatInvalid.div a b) (FloatArith.div a b)
def powNat (a : F) (n : Nat) : M F := chk (FloatInvalid.powNat a n) (FloatArith.powNat a n)
end Fp

/-- `numpy.datetime64` / `numpy.timedelta64` arithmetic of the translated code (uninterpreted) -/
class TimeOps (T TD : Type) where
  /-- `t1 - t2` -/
  diff : T → T → TD
  /-- `t + d` -/
  add : T → TD → T
  /-- `t - d` -/
  sub : T → TD → T
  /-- `d / k` for an `int` literal k (timedelta64 division truncates to the unit) -/
  divInt : TD → Int → TD
  /-- `np.timedelta64(k, unit)` -/
  td : Int → String → TD

/-! ### numpy / datetime values of the time-handling code: tagged values and the operations the translated code applies

What kind of object a value is decides which branch the code takes (`isinstance`, `hasattr`, `np.datetime64(x)` raising
ValueError on arrays); the integer tick arithmetic of datetime64 / timedelta64 is interpreted (unbounded `Int`: the
int64 range and NaT are not modelled); float arithmetic stays uninterpreted (`FloatOps` / `FloatArith`).  Every
operation is checked against the running numpy by harness/pytrans_selftest.py.  An operation applied to a kind of
value for which no behaviour has been recorded yields `Exc.unmodelled`. -/
namespace Np

/-- `tzinfo` of an aware datetime: `dt.timezone.utc` (or an object equal to it) / any other tzinfo object with its UTC
    offset in microseconds (`zoneinfo.ZoneInfo("UTC")` is `other 0`: it is not equal to `dt.timezone.utc`) -/
inductive Tz | utc | other (offsetUs : Int)
deriving DecidableEq, Repr

inductive TKind | dt | td
deriving DecidableEq, Repr

inductive NumDT | f32 | f64 | i64
deriving DecidableEq, Repr

/-- a numpy scalar, or an array (`lazy`: a dask array) of the given shape (`[]`: 0-d) -/
inductive Cont | scalar | arr (lazy : Bool) (shape : List Nat)
deriving DecidableEq, Repr

/-- tagged values.  A scalar holds its one element as a singleton payload; array payloads are in C order. -/
inductive Val (F : Type)
  | pyint (n : Int)
  | pyfloat (x : F)
  /-- `datetime.datetime`: microseconds of its wall clock since 1970-01-01T00:00, and its `tzinfo` -/
  | datetime (us : Int) (tz : Option Tz)
  /-- `numpy.datetime64` / `numpy.timedelta64` scalar or array of one unit: tick counts -/
  | time (k : TKind) (unit : Str) (c : Cont) (ticks : List Int)
  /-- numpy float32 / float64 / int64 scalar or array (an element is held as the `F` of its value) -/
  | num (d : NumDT) (c : Cont) (xs : List F)
  /-- object ndarray of naive `datetime.datetime` (microseconds since 1970 each) -/
  | objArr (shape : List Nat) (us : List Int)
  | memoryview
deriving Repr

instance : Truthy Tz := ⟨fun _ => true⟩

/-- attoseconds per tick of the numpy units of fixed length (`Y` and `M` have none) -/
def unitTable : List (Str × Nat) :=
  [(['a', 's'], 1), (['f', 's'], 1000), (['p', 's'], 1000000), (['n', 's'], 1000000000), (['u', 's'], 1000000000000),
   (['m', 's'], 1000000000000000), (['s'], 1000000000000000000), (['m'], 60000000000000000000),
   (['h'], 3600000000000000000000), (['D'], 86400000000000000000000), (['W'], 604800000000000000000000)]

def unitAs (u : Str) : M Nat :=
  match dictGet? unitTable u with
  | some n => pure n
  | none => throw Exc.unmodelled

/-- the factor between two units, `a` attoseconds per tick the coarser: numpy refuses (OverflowError) a factor of 2^56
    or more (`get_datetime_units_factor`) -/
def unitFactor (a b : Nat) : M Nat :=
  if a / b ≥ 72057594037927936 then throw (Exc.named "OverflowError") else pure (a / b)

/-- ticks of unit `u` as ticks of unit `v`: exact towards a finer unit, floor division towards a coarser one (what
    `astype` and the operators do) -/
def convTicks (u v : Str) (t : Int) : M Int := do
  let a ← unitAs u
  let b ← unitAs v
  if a ≥ b then pure (t * (((← unitFactor a b) : Nat) : Int)) else pure (t / (((← unitFactor b a) : Nat) : Int))

/-- the finer of two units (what a binary operation on datetime64 / timedelta64 of two units works in) -/
def finer (u v : Str) : M Str := do
  let a ← unitAs u
  let b ← unitAs v
  pure (if a ≤ b then u else v)

/-- container of a ufunc result: a numpy *scalar* when every operand was 0-d and none was lazy -/
def mkCont (lazy : Bool) (shape : List Nat) : Cont :=
  if !lazy && shape.isEmpty then Cont.scalar else Cont.arr lazy shape

def Cont.lazy : Cont → Bool
  | .arr l _ => l
  | .scalar => false

def Cont.shape : Cont → List Nat
  | .arr _ s => s
  | .scalar => []

/-- elementwise pairing of two payloads: equal shapes, or one side 0-d (broadcast); other broadcasts are not modelled -/
def bcast {α β : Type} (c1 c2 : Cont) (xs : List α) (ys : List β) : M (Cont × List (α × β)) :=
  let lz := c1.lazy || c2.lazy
  if c1.shape = c2.shape then pure (mkCont lz c1.shape, xs.zip ys)
  else match c1.shape, xs, c2.shape, ys with
    | [], [x], s, ys => pure (mkCont lz s, ys.map fun y => (x, y))
    | s, xs, [], [y] => pure (mkCont lz s, xs.map fun x => (x, y))
    | _, _, _, _ => throw Exc.unmodelled

/-- `np.datetime64(x)` -/
def datetime64 {F : Type} : Val F → M (Val F)
  | .datetime us none => pure (.time .dt ['u', 's'] .scalar [us])
  | .datetime us (some .utc) => pure (.time .dt ['u', 's'] .scalar [us])
  | .datetime us (some (.other off)) => pure (.time .dt ['u', 's'] .scalar [us - off])
  | .time .dt u .scalar ts => pure (.time .dt u .scalar ts)
  | .time .dt u (.arr false []) ts => pure (.time .dt u .scalar ts)
  | .time _ _ _ _ => throw Exc.ValueError
  | .num _ _ _ => throw Exc.ValueError
  | .objArr _ _ => throw Exc.ValueError
  | .pyint _ => throw Exc.ValueError
  | .pyfloat _ => throw Exc.ValueError
  | .memoryview => throw Exc.unmodelled

/-- days from 1970-01-01 of a proleptic-Gregorian date (the algorithm of numpy's datetime parser) -/
def daysFromCivil (y : Int) (m d : Nat) : Int :=
  let y' : Int := if m ≤ 2 then y - 1 else y
  let era : Int := if y' ≥ 0 then y' / 400 else -((399 - y') / 400)
  let yoe : Int := y' - era * 400
  let mp : Int := ((m : Int) + 9) % 12
  let doy : Int := (153 * mp + 2) / 5 + (d : Int) - 1
  let doe : Int := yoe * 365 + yoe / 4 - yoe / 100 + doy
  era * 146097 + doe - 719468

def asciiNat : Str → Option Nat
  | [] => none
  | s => s.foldl (fun acc c => match acc with
      | none => none
      | some n => if '0' ≤ c ∧ c ≤ '9' then some (n * 10 + (c.toNat - 48)) else none) (some 0)

def daysInMonth (y m : Nat) : Nat :=
  if m = 2 then (if (y % 4 = 0 ∧ y % 100 ≠ 0) ∨ y % 400 = 0 then 29 else 28)
  else if m = 4 ∨ m = 6 ∨ m = 9 ∨ m = 11 then 30 else 31

/-- `np.datetime64("<literal>")` for the literals `YYYY-MM-DD` (unit D), `YYYY-MM-DDThh:mm` (unit m) and
    `YYYY-MM-DDThh:mm:ss` (unit s) -/
def datetime64Iso {F : Type} (s : Str) : M (Val F) := do
  let some y := asciiNat (s.take 4) | throw Exc.unmodelled
  let some mo := asciiNat ((s.drop 5).take 2) | throw Exc.unmodelled
  let some d := asciiNat ((s.drop 8).take 2) | throw Exc.unmodelled
  if (s.drop 4).take 1 ≠ ['-'] ∨ (s.drop 7).take 1 ≠ ['-'] then throw Exc.unmodelled
  if mo < 1 ∨ 12 < mo ∨ d < 1 ∨ daysInMonth y mo < d then throw Exc.ValueError
  let days := daysFromCivil (y : Int) mo d
  if s.length = 10 then return .time .dt ['D'] .scalar [days]
  let some h := asciiNat ((s.drop 11).take 2) | throw Exc.unmodelled
  let some mi := asciiNat ((s.drop 14).take 2) | throw Exc.unmodelled
  if (s.drop 10).take 1 ≠ ['T'] ∨ (s.drop 13).take 1 ≠ [':'] then throw Exc.unmodelled
  if 23 < h ∨ 59 < mi then throw Exc.ValueError
  let mins := days * 1440 + ((h * 60 + mi : Nat) : Int)
  if s.length = 16 then return .time .dt ['m'] .scalar [mins]
  let some sec := asciiNat ((s.drop 17).take 2) | throw Exc.unmodelled
  if (s.drop 16).take 1 ≠ [':'] then throw Exc.unmodelled
  if 59 < sec then throw Exc.ValueError
  if s.length = 19 then return .time .dt ['s'] .scalar [mins * 60 + (sec : Int)]
  throw Exc.unmodelled

/-- `"datetime64[u]"` / `"timedelta64[u]"` -/
def parseDtype (s : Str) : Option (TKind × Str) :=
  let body (p : Str) : Option Str :=
    if p.isPrefixOf s ∧ s.getLast? = some ']' then some ((s.drop p.length).dropLast) else none
  match body ['d', 'a', 't', 'e', 't', 'i', 'm', 'e', '6', '4', '['] with
  | some u => some (.dt, u)
  | none => match body ['t', 'i', 'm', 'e', 'd', 'e', 'l', 't', 'a', '6', '4', '['] with
    | some u => some (.td, u)
    | none => none

/-- `x.astype("datetime64[u]")` / `x.astype("timedelta64[u]")` -/
def astype {F : Type} (v : Val F) (dtype : Str) : M (Val F) := do
  match v with
  | .pyint _ => throw Exc.AttributeError
  | .pyfloat _ => throw Exc.AttributeError
  | .datetime _ _ => throw Exc.AttributeError
  | .memoryview => throw Exc.AttributeError
  | .time k u c ts =>
    let some (k', u') := parseDtype dtype | throw Exc.unmodelled
    if k ≠ k' then throw Exc.unmodelled
    let _ ← convTicks u u' 0      -- (the factor between the units is checked even when there is no element)
    let ts' ← ts.mapM (convTicks u u')
    pure (.time k u' c ts')
  | .objArr sh us =>
    let some (k', u') := parseDtype dtype | throw Exc.unmodelled
    if k' ≠ .dt then throw Exc.unmodelled
    let _ ← convTicks ['u', 's'] u' 0
    let ts' ← us.mapM (convTicks ['u', 's'] u')
    pure (.time .dt u' (.arr false sh) ts')
  | .num _ _ _ => throw Exc.unmodelled

/-- `hasattr(x, name)` for the attribute names the translated code asks for -/
def hasattr {F : Type} (v : Val F) (name : Str) : M Bool :=
  let arrayish := [['s', 'h', 'a', 'p', 'e'], ['d', 't', 'y', 'p', 'e'], ['a', 's', 't', 'y', 'p', 'e']]
  let data := ['d', 'a', 't', 'a']
  let af := ['_', '_', 'a', 'r', 'r', 'a', 'y', '_', 'f', 'u', 'n', 'c', 't', 'i', 'o', 'n', '_', '_']
  let dtattrs := [['t', 'z', 'i', 'n', 'f', 'o'], ['r', 'e', 'p', 'l', 'a', 'c', 'e']]
  if !(arrayish ++ [data, af] ++ dtattrs).contains name then throw Exc.unmodelled else
  let ofCont (c : Cont) : Bool :=
    match c with
    | .scalar => arrayish.contains name || name == data
    | .arr lazy _ => arrayish.contains name || name == af || (name == data && !lazy)
  match v with
  | .pyint _ => pure false
  | .pyfloat _ => pure false
  | .datetime _ _ => pure (dtattrs.contains name)
  | .time _ _ c _ => pure (ofCont c)
  | .num _ c _ => pure (ofCont c)
  | .objArr _ _ => pure (ofCont (.arr false []))
  | .memoryview => throw Exc.unmodelled

/-- `isinstance(x, float)`: Python float and numpy.float64 (a subclass of float) -/
def isinstanceFloat {F : Type} : Val F → Bool
  | .pyfloat _ => true
  | .num .f64 .scalar _ => true
  | _ => false

/-- `isinstance(x, dt.datetime)` -/
def isinstanceDatetime {F : Type} : Val F → Bool
  | .datetime _ _ => true
  | _ => false

/-- `x.tzinfo` -/
def tzinfo {F : Type} : Val F → M (Option Tz)
  | .datetime _ tz => pure tz
  | .memoryview => throw Exc.unmodelled
  | _ => throw Exc.AttributeError

/-- `x.replace(tzinfo=None)` -/
def replaceTzinfoNone {F : Type} : Val F → M (Val F)
  | .datetime us _ => pure (.datetime us none)
  | .memoryview => throw Exc.unmodelled
  | _ => throw Exc.AttributeError

/-- `np.asanyarray(x, dtype=np.timedelta64)`: a timedelta64 scalar becomes a 0-d array, a dask array is computed -/
def asanyarrayTimedelta {F : Type} : Val F → M (Val F)
  | .time .td u c ts => pure (.time .td u (.arr false c.shape) ts)
  | _ => throw Exc.unmodelled

/-- `np.datetime_data(x.dtype)[0]` -/
def datetimeUnit {F : Type} : Val F → M Str
  | .time _ u _ _ => pure u
  | .num _ _ _ => throw Exc.TypeError
  | .objArr _ _ => throw Exc.TypeError
  | .memoryview => throw Exc.unmodelled
  | _ => throw Exc.AttributeError

/-- `np.timedelta64(k, unit)` -/
def timedelta64 {F : Type} (k : Int) (unit : Str) : Val F := .time .td unit .scalar [k]

/-- `a - b` on datetime64 / timedelta64 values: both sides are taken to the finer unit -/
def sub {F : Type} (a b : Val F) : M (Val F) := do
  match a, b with
  | .time k1 u c1 xs, .time k2 v c2 ys =>
    let k ← (match k1, k2 with
      | .dt, .dt => pure TKind.td
      | .td, .td => pure TKind.td
      | .dt, .td => pure TKind.dt
      | .td, .dt => throw Exc.TypeError : M TKind)
    let w ← finer u v
    let _ ← convTicks u w 0
    let _ ← convTicks v w 0
    let xs' ← xs.mapM (convTicks u w)
    let ys' ← ys.mapM (convTicks v w)
    let (c, ps) ← bcast c1 c2 xs' ys'
    pure (.time k w c (ps.map fun p => p.1 - p.2))
  | _, _ => throw Exc.unmodelled

/-- `a / b` on timedelta64 values: both tick counts in the finer unit, converted to double, divided (float64) -/
def div {F : Type} [FloatOps F] [FloatArith F] (a b : Val F) : M (Val F) := do
  match a, b with
  | .time .td u c1 xs, .time .td v c2 ys =>
    let w ← finer u v
    let _ ← convTicks u w 0
    let _ ← convTicks v w 0
    let xs' ← xs.mapM (convTicks u w)
    let ys' ← ys.mapM (convTicks v w)
    let (c, ps) ← bcast c1 c2 xs' ys'
    pure (.num .f64 c (ps.map fun p => FloatArith.div (FloatOps.ofInt p.1 : F) (FloatOps.ofInt p.2)))
  | _, _ => throw Exc.unmodelled

/-- `a + b` on float64 values (numpy scalars / arrays, Python floats) -/
def add {F : Type} [FloatArith F] (a b : Val F) : M (Val F) := do
  match a, b with
  | .pyfloat x, .pyfloat y => pure (.pyfloat (FloatArith.add x y))
  | .num .f64 c xs, .pyfloat y => pure (.num .f64 (mkCont c.lazy c.shape) (xs.map fun x => FloatArith.add x y))
  | .pyfloat x, .num .f64 c ys => pure (.num .f64 (mkCont c.lazy c.shape) (ys.map fun y => FloatArith.add x y))
  | .num .f64 c1 xs, .num .f64 c2 ys =>
    let (c, ps) ← bcast c1 c2 xs ys
    pure (.num .f64 c (ps.map fun p => FloatArith.add p.1 p.2))
  | _, _ => throw Exc.unmodelled

/-- `type(t)(x)` / `t.__class__(x)`: a Python float or numpy float64 made from `x` (a Python float or a 0-d float64 array) -/
def callType {F : Type} (t x : Val F) : M (Val F) := do
  let y ← (match x with
    | .pyfloat y => pure y
    | .num .f64 .scalar [y] => pure y
    | .num .f64 (.arr false []) [y] => pure y
    | _ => throw Exc.unmodelled : M F)
  match t with
  | .pyfloat _ => pure (.pyfloat y)
  | .num .f64 .scalar _ => pure (.num .f64 .scalar [y])
  | _ => throw Exc.unmodelled

/-- `x.data` -/
def attrData {F : Type} : Val F → M (Val F)
  | .pyint _ => throw Exc.AttributeError
  | .pyfloat _ => throw Exc.AttributeError
  | .datetime _ _ => throw Exc.AttributeError
  | .time _ _ c _ => if c.lazy then throw Exc.AttributeError else pure .memoryview
  | .num _ c _ => if c.lazy then throw Exc.AttributeError else pure .memoryview
  | .objArr _ _ => pure .memoryview
  | .memoryview => throw Exc.unmodelled

/-- `np.asarray(x, like=t)` for a Python float `x`: a 0-d float64 array of the kind of `t` (numpy / dask); TypeError when
    `t` does not implement `__array_function__` -/
def asarrayLike {F : Type} (x t : Val F) : M (Val F) := do
  let y ← (match x with
    | .pyfloat y => pure y
    | _ => throw Exc.unmodelled : M F)
  match t with
  | .time _ _ (.arr lazy _) _ => pure (.num .f64 (.arr lazy []) [y])
  | .num _ (.arr lazy _) _ => pure (.num .f64 (.arr lazy []) [y])
  | .objArr _ _ => pure (.num .f64 (.arr false []) [y])
  | _ => throw Exc.TypeError

end Np

/-! ### objects with attributes that may be absent: a heap of slots with a trace of the loads and stores

A computation over a heap `σ`: exceptions do not undo what was done to the heap before them (unlike `StateT σ M`). -/
def MS (σ α : Type) := σ → Except Exc α × σ

instance {σ : Type} : Monad (MS σ) where
  pure a := fun s => (Except.ok a, s)
  bind x f := fun s =>
    match x s with
    | (Except.ok a, s') => f a s'
    | (Except.error e, s') => (Except.error e, s')

instance {σ : Type} : MonadExcept Exc (MS σ) where
  throw e := fun s => (Except.error e, s)
  tryCatch x h := fun s =>
    match x s with
    | (Except.ok a, s') => (Except.ok a, s')
    | (Except.error e, s') => h e s'

/-- the whole heap (used to roll a transaction back) -/
def heapGet {σ : Type} : MS σ σ := fun s => (Except.ok s, s)
def heapSet {σ : Type} (s' : σ) : MS σ Unit := fun _ => (Except.ok (), s')

/-- a computation that does not touch the heap -/
instance {σ : Type} : MonadLift (Except Exc) (MS σ) := ⟨fun x s => (x, s)⟩

end PV.Py
