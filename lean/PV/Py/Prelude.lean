/-
  PV.Py.Prelude — the Python value semantics that the translated discrete code of pyorbital needs
  (tie T-D: harness/pytrans.py translates whitelisted functions of /repo statement by statement into Lean
  `do` blocks over these definitions; PV/Generated/Translated.lean).  Hand-written, core Lean only.

  * `str` is `List Char` (`Str`).  A Lean `Char` is a Unicode scalar value, so lone surrogates (which a Python
    `str` may hold) are outside the value space.
  * an exception is a value of `Exc` (its class; the message is not kept); a Python computation is `Except Exc α`.
  * the character classes (`str.isspace`, `str.isdecimal`, `str.isdigit`, the whitespace `int()` strips,
    `str.upper`) come from PV/Generated/PyUnicode.lean, which harness/pytrans.py writes from the `unicodedata`
    of the interpreter that runs pyorbital; they are right for all of Unicode, not only for ASCII.
-/
import PV.Generated.PyUnicode
namespace PV.Py

abbrev Str := List Char

/-- exception classes.  `named q`: a class defined in the translated module (directly derived from `Exception`)
    or raised by an external parameter, by qualified name.  `except K` matches by equality: the translator
    refuses a handler whose class has a proper subclass that the guarded code can raise. -/
inductive Exc
  | ValueError | IndexError | KeyError | TypeError | AttributeError | StopIteration | OSError | ZeroDivisionError
  | named (qualname : String)
  /-- not a Python exception: the translation reached an operation whose Python meaning the prelude does not define
      (e.g. `sub in stream`).  A theorem "translation = model" whose model side never yields it proves it unreachable. -/
  | unmodelled
  /-- not a Python exception: a `while` loop was still running when the fuel the translation gives it ran out -/
  | outOfFuel
deriving DecidableEq, Repr, Inhabited

abbrev M := Except Exc

/-! ### character classes (tables generated from `unicodedata`) -/

def isspaceN (n : Nat) : Bool := Gen.U.whitespace.contains n
def isIntSpaceN (n : Nat) : Bool := Gen.U.intWhitespace.contains n
def decimalValueN (n : Nat) : Option Nat :=
  (Gen.U.decimalZeros.find? (fun z => z ≤ n && n < z + 10)).map (n - ·)
def isdigitN (n : Nat) : Bool :=
  (decimalValueN n).isSome || Gen.U.digitOtherRanges.any (fun r => r.1 ≤ n && n ≤ r.2)

/-- `c.isspace()` = what `str.strip()` and `str.split()` treat as whitespace -/
def isspace (c : Char) : Bool := isspaceN c.toNat

/-- the whitespace `int(s)` / `float(s)` strip (the ASCII separators 0x1c–0x1f are *not* among them) -/
def isIntSpace (c : Char) : Bool := isIntSpaceN c.toNat

/-- value of a Unicode decimal digit (category Nd): every such digit lies in a run of ten starting at a zero -/
def decimalValue (c : Char) : Option Nat := decimalValueN c.toNat

def isdecimalChar (c : Char) : Bool := (decimalValue c).isSome

/-- `c.isdigit()`: decimal digits and the other characters with a digit value (superscripts, circled digits ...) -/
def isdigitChar (c : Char) : Bool := isdigitN c.toNat

/-- `s.isdigit()` -/
def isdigit (s : Str) : Bool := !s.isEmpty && s.all isdigitChar

/-- `c.upper()` (full case mapping: one character may become several) -/
def upperChar (c : Char) : Str :=
  match Gen.U.upperSpecial.find? (fun e => e.1 == c.toNat) with
  | some e => e.2.map Char.ofNat
  | none =>
    match Gen.U.upperRanges.find? (fun r => r.1 ≤ c.toNat && c.toNat ≤ r.2.1) with
    | some r => [Char.ofNat (r.2.2 + (c.toNat - r.1))]
    | none => [c]

/-- `s.upper()` -/
def upper (s : Str) : Str := s.flatMap upperChar

/-! ### str / list operations -/

/-- `s.strip()` -/
def strip (s : Str) : Str := ((s.dropWhile isspace).reverse.dropWhile isspace).reverse

/-- a slice bound against length `n`: negative counts from the end, everything is clamped to `[0, n]` -/
def bound (n : Nat) (i : Int) : Nat := if i < 0 then (i + n).toNat else min i.toNat n

/-- `s[lo:hi]` (step 1); `none` = bound omitted -/
def slice {α : Type} (s : List α) (lo hi : Option Int) : List α :=
  let a := match lo with | none => 0 | some i => bound s.length i
  let b := match hi with | none => s.length | some i => bound s.length i
  (s.take b).drop a

/-- `s[i]`: IndexError outside `[-n, n)` -/
def index {α : Type} (s : List α) (i : Int) : M α :=
  let j : Int := if i < 0 then i + s.length else i
  if j < 0 then throw .IndexError else
  match s[j.toNat]? with
  | some a => pure a
  | none => throw .IndexError

/-- `s.split(sep)` for a one-character separator -/
def splitChar (sep : Char) : Str → List Str
  | [] => [[]]
  | c :: cs =>
    if c = sep then [] :: splitChar sep cs
    else match splitChar sep cs with
      | h :: t => (c :: h) :: t
      | [] => [[c]]

/-- `s.split()`: maximal runs of non-whitespace -/
def splitWsAux : Str → Str → List Str
  | [], cur => if cur.isEmpty then [] else [cur.reverse]
  | c :: cs, cur =>
    if isspace c then (if cur.isEmpty then splitWsAux cs [] else cur.reverse :: splitWsAux cs [])
    else splitWsAux cs (c :: cur)
def splitWs (s : Str) : List Str := splitWsAux s []

/-- `sep.join(parts)` -/
def join (sep : Str) : List Str → Str
  | [] => []
  | [x] => x
  | x :: y :: r => x ++ sep ++ join sep (y :: r)

/-- `s.startswith(p)` -/
def startswith (s p : Str) : Bool := p.isPrefixOf s

/-- `sub in s` for two `str` -/
def contains (sub : Str) : Str → Bool
  | [] => sub.isEmpty
  | c :: cs => sub.isPrefixOf (c :: cs) || contains sub cs

/-- `a, b = xs`: ValueError unless exactly two items -/
def unpack2 {α : Type} : List α → M (α × α)
  | [a, b] => pure (a, b)
  | _ => throw .ValueError

/-- an operation other than attribute access applied to a value that may be `None` (`None[0]`, `None + s`): TypeError -/
def need {α : Type} : Option α → M α
  | some a => pure a
  | none => throw .TypeError

/-- attribute access / method call on a value that may be `None` (`None.strip()`): AttributeError -/
def needAttr {α : Type} : Option α → M α
  | some a => pure a
  | none => throw .AttributeError

/-- a `tle_file` argument: `None`, a path (`str`) or an `io.StringIO` object -/
inductive FileArg (IO : Type)
  | none
  | path (s : Str)
  | io (f : IO)
deriving Repr

def FileArg.isNone {IO : Type} : FileArg IO → Bool | .none => true | _ => false
/-- `isinstance(x, io.StringIO)` -/
def FileArg.isIO {IO : Type} : FileArg IO → Bool | .io _ => true | _ => false
/-- `isinstance(x, str)` -/
def FileArg.isPath {IO : Type} : FileArg IO → Bool | .path _ => true | _ => false

/-- a `tle_file` passed where the callee needs a path; for None or a stream the callee's behaviour is not modelled -/
def FileArg.asPath {IO : Type} : FileArg IO → M Str
  | .path s => pure s
  | _ => throw .unmodelled

/-- `sub in x`: TypeError on None, substring test on a str; on a stream Python would consume its lines: not modelled -/
def strInFileArg {IO : Type} (sub : Str) : FileArg IO → M Bool
  | .none => throw .TypeError
  | .path s => pure (contains sub s)
  | .io _ => throw .unmodelled

/-- reading a local that may be unbound on the path taken: UnboundLocalError -/
def boundLocal {α : Type} : Option α → M α
  | some a => pure a
  | none => throw (.named "UnboundLocalError")

/-! ### truthiness -/
class Truthy (α : Type) where
  truthy : α → Bool
export Truthy (truthy)
instance : Truthy Bool := ⟨id⟩
instance : Truthy Int := ⟨fun i => i != 0⟩
instance {α : Type} : Truthy (List α) := ⟨fun l => !l.isEmpty⟩
/-- `None` and `""` are false; an object without `__bool__`/`__len__` (a stream) is true -/
instance {IO : Type} : Truthy (FileArg IO) := ⟨fun x => match x with | .none => false | .path s => !s.isEmpty | .io _ => true⟩
instance {α : Type} [Truthy α] : Truthy (Option α) := ⟨fun o => match o with | some a => truthy a | none => false⟩

/-! ### int -/

/-- `a % b` on `int`: the result has the sign of the divisor -/
def mod (a b : Int) : M Int := if b = 0 then throw .ZeroDivisionError else pure (Int.fmod a b)

/-- `a // b` on `int` -/
def floordiv (a b : Int) : M Int := if b = 0 then throw .ZeroDivisionError else pure (Int.fdiv a b)

/-- decimal digits, single underscores allowed between digits; `seen` = the previous character was a digit -/
def intDigits : Bool → List Nat → Str → Option (List Nat)
  | seen, acc, [] => if seen then some acc.reverse else none
  | seen, acc, c :: cs =>
    if c = '_' then (if seen then intDigits false acc cs else none)
    else match decimalValue c with
      | some v => intDigits true (v :: acc) cs
      | none => none

/-- `sys.get_int_max_str_digits()` default -/
def intMaxStrDigits : Nat := 4300

/-- `int(s)` for a `str` (base 10): `[ws] [+-] d (_? d)* [ws]` with any Unicode decimal digits;
    more than 4300 digits: ValueError -/
def int (s : Str) : M Int :=
  let t := ((s.dropWhile isIntSpace).reverse.dropWhile isIntSpace).reverse
  let (neg, body) : Bool × Str := match t with
    | '-' :: r => (true, r)
    | '+' :: r => (false, r)
    | r => (false, r)
  match intDigits false [] body with
  | none => throw .ValueError
  | some ds =>
    if ds.length > intMaxStrDigits then throw .ValueError else
    let v : Int := (ds.foldl (fun a d => a * 10 + d) 0 : Nat)
    pure (if neg then -v else v)

/-! ### dict (insertion ordered) -/
abbrev Dict (κ ν : Type) := List (κ × ν)

def dictGet? {κ ν : Type} [DecidableEq κ] (d : Dict κ ν) (k : κ) : Option ν :=
  match d with
  | [] => none
  | (k', v) :: r => if k' = k then some v else dictGet? r k

/-- `d[k]` -/
def dictGetItem {κ ν : Type} [DecidableEq κ] (d : Dict κ ν) (k : κ) : M ν :=
  match dictGet? d k with
  | some v => pure v
  | none => throw .KeyError

/-- `d.get(k, dflt)` -/
def dictGetD {κ ν : Type} [DecidableEq κ] (d : Dict κ ν) (k : κ) (dflt : ν) : ν := (dictGet? d k).getD dflt

/-- `k in d` -/
def dictHas {κ ν : Type} [DecidableEq κ] (d : Dict κ ν) (k : κ) : Bool := (dictGet? d k).isSome

/-- `d[k] = v` -/
def dictSet {κ ν : Type} [DecidableEq κ] (d : Dict κ ν) (k : κ) (v : ν) : Dict κ ν :=
  match d with
  | [] => [(k, v)]
  | (k', v') :: r => if k' = k then (k, v) :: r else (k', v') :: dictSet r k v

/-! ### builtins -/

/-- the loop of `max(xs, key=key)`: a later item replaces the current best only when its key is strictly larger -/
def maxLoop {α κ : Type} [LT κ] [DecidableLT κ] (key : α → κ) (best : α) : List α → α
  | [] => best
  | y :: ys => if key best < key y then maxLoop key y ys else maxLoop key best ys

/-- `max(xs, key=key)`: ValueError on an empty sequence -/
def maxByKey {α κ : Type} [LT κ] [DecidableLT κ] (key : α → κ) : List α → M α
  | [] => throw .ValueError
  | x :: xs => pure (maxLoop key x xs)

/-- the part of a `requests.Response` the translated code reads -/
structure Response where
  status_code : Int
  text : Str
deriving Repr, Inhabited, DecidableEq

/-! ### iterators: the remaining items; `next` and `for` only ever shorten them -/
abbrev Iter (α : Type) := List α

/-- `next(it)` -/
def next {α : Type} : Iter α → M (α × Iter α)
  | [] => throw .StopIteration
  | a :: r => pure (a, r)

/-- an upper bound on the number of passes of `for x in it` (every pass takes at least one item) -/
def iterFuel {α : Type} (it : Iter α) : List Unit := List.replicate it.length ()

/-! ### float arithmetic is not interpreted: the operations the translated code applies to floats -/
class FloatOps (F : Type) where
  /-- an `int` operand of a float operation -/
  ofInt : Int → F
  /-- `b ** e` for `int` b and a negative `int` literal e (a float) -/
  intPow : Int → Int → F
  mul : F → F → F
  sub : F → F → F

/-- further float operations of the translated orbital code (uninterpreted, like `FloatOps`) -/
class FloatArith (F : Type) where
  add : F → F → F
  div : F → F → F
  /-- `x ** n` for a non-negative `int` literal n -/
  powNat : F → Nat → F
  /-- `np.abs(x)` / `abs(x)` -/
  abs : F → F
  /-- `a > b` (false when a NaN is involved) -/
  gt : F → F → Bool
  /-- `a < b` -/
  lt : F → F → Bool
  /-- `a <= b` -/
  le : F → F → Bool
  /-- `a >= b` -/
  ge : F → F → Bool
  /-- `max(a, b)`: `b if b > a else a` (an `int` operand is held as the float of the same value) -/
  max : F → F → F
  /-- `min(a, b)`: `b if b < a else a` -/
  min : F → F → F
  /-- a float literal of the source: the decimal `mantissa * 10 ^ exponent` written there -/
  lit : Nat → Int → F
  /-- `int(x)`: truncation toward zero (ValueError / OverflowError on nan / inf are not modelled) -/
  toInt : F → Int

/-- `numpy.datetime64` / `numpy.timedelta64` arithmetic of the translated code (uninterpreted) -/
class TimeOps (T TD : Type) where
  /-- `t1 - t2` -/
  diff : T → T → TD
  /-- `t + d` -/
  add : T → TD → T
  /-- `t - d` -/
  sub : T → TD → T
  /-- `d / k` for an `int` literal k (timedelta64 division truncates to the unit) -/
  divInt : TD → Int → TD
  /-- `np.timedelta64(k, unit)` -/
  td : Int → String → TD

/-! ### objects with attributes that may be absent: a heap of slots with a trace of the loads and stores

A computation over a heap `σ`: exceptions do not undo what was done to the heap before them (unlike `StateT σ M`). -/
def MS (σ α : Type) := σ → Except Exc α × σ

instance {σ : Type} : Monad (MS σ) where
  pure a := fun s => (Except.ok a, s)
  bind x f := fun s =>
    match x s with
    | (Except.ok a, s') => f a s'
    | (Except.error e, s') => (Except.error e, s')

instance {σ : Type} : MonadExcept Exc (MS σ) where
  throw e := fun s => (Except.error e, s)
  tryCatch x h := fun s =>
    match x s with
    | (Except.ok a, s') => (Except.ok a, s')
    | (Except.error e, s') => h e s'

/-- the whole heap (used to roll a transaction back) -/
def heapGet {σ : Type} : MS σ σ := fun s => (Except.ok s, s)
def heapSet {σ : Type} (s' : σ) : MS σ Unit := fun _ => (Except.ok (), s')

/-- a computation that does not touch the heap -/
instance {σ : Type} : MonadLift (Except Exc) (MS σ) := ⟨fun x s => (x, s)⟩

end PV.Py
