/- Root of the PV library: everything `lake build PV` must check. -/
import PV.Props.C01
import PV.Props.C02
import PV.Props.C04
import PV.Props.C05
import PV.Props.C06
import PV.Props.C07
import PV.Props.C09
import PV.Props.C10
import PV.Props.C12
import PV.Props.C13
import PV.Props.C14
import PV.Props.C15
import PV.Props.C16
import PV.Props.C17
import PV.Props.C19
import PV.Props.C20
import PV.Drv.All
