/-
  pvdriver — runs the executable (Float / discrete) reading of the models on a
  line protocol: one operation per input line, one result line per operation.
  Imports nothing from Mathlib (so it links as a native executable).
-/
import PV.Drv.All

open PV.Drv

partial def loop (hin : IO.FS.Stream) (hout : IO.FS.Stream) : IO Unit := do
  let line ← hin.getLine
  if line.isEmpty then return ()
  let toks := (line.trimAscii.toString.splitOn " ").filter (· ≠ "")
  let out := match toks with
    | [] => "empty"
    | op :: args =>
      match PV.Drv.lookup op with
      | some h => h args
      | none => "bad-op"
  hout.putStrLn out
  loop hin hout

def main : IO Unit := do
  let hin ← IO.getStdin
  let hout ← IO.getStdout
  loop hin hout
  hout.flush
